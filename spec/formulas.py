"""Documented formulas (the oracle of engine E1) as terms, each with the place it was taken from.

Nothing here is derived from the implementation; every entry cites the doxygen comment, the .dox
page or the property text it encodes.
"""
from hepsa.terms import *   # noqa
from hepsa import terms as T

N, W, r, c = sym('N'), sym('W'), sym('r'), sym('c')


def split_before(N, r, W):
    # properties.jsonl C16: "discard_before = (total/world)*rank + min(rank, total%world)"
    return add(mul(idiv(N, W), r), ite(T.cmp('<', r, imod(N, W)), r, imod(N, W)))


def split_sub_calls(N, r, W):
    # properties.jsonl C16: "sub_calls = total/world + (rank < total%world)";
    # doc of mpi_plain: "each process evaluates calls/world calls, the first calls%world one more"
    return add(idiv(N, W), ite(T.cmp('<', r, imod(N, W)), ONE, ZERO))


def split_after(N, c, r, W):
    # properties.jsonl C16: "discard_after = total - before - calls (clamped at 0)"
    b = split_before(N, r, W)
    return ite(T.cmp('<', add(b, c), N), sub(sub(N, b), c), ZERO)

# Tiling theorem (proved here once, on paper, from the canonical forms above; q = N div W,
# m = N mod W, so N = q*W + m with 0 <= m < W):
#   sub(r)      = q + [r < m]                      -> shares differ by at most one
#   before(r)   = q*r + min(r, m)
#   before(r+1) - before(r) = q + (min(r+1,m) - min(r,m)) = q + [r < m] = sub(r)   (contiguous)
#   before(0)   = 0,  before(W) = q*W + min(W, m) = q*W + m = N                     (exact cover)
#   before(r) + sub(r) = before(r+1) <= before(W) = N, hence the clamp in `after` is never
#   active for r < W and after(r) = N - before(r) - sub(r) = N - before(r+1)  (all ranks end at N)
# The static check establishes that the code *is* these canonical forms at every site.


# ---- results (mc_result.hpp class documentation; results.dox) --------------------------------
def mc_value(sum_, n):
    # E = 1/N sum f(x_i)
    return div(sum_, n)


def mc_variance(sum_, sumsq, n):
    # S^2 = 1/(N-1) [ 1/N sum f^2 - E^2 ]
    e = div(sum_, n)
    return div(sub(div(sumsq, n), mul(e, e)), sub(n, ONE))
