"""Documented formulas (the oracle of engine E1) as terms, each with the place it was taken from.

Nothing here is derived from the implementation; every entry cites the doxygen comment, the .dox
page or the property text it encodes.
"""
from hepsa.terms import *   # noqa
from hepsa import terms as T

N, W, r, c = sym('N'), sym('W'), sym('r'), sym('c')


def split_before(N, r, W):
    # properties.jsonl C16: "discard_before = (total/world)*rank + min(rank, total%world)"
    return add(mul(idiv(N, W), r), ite(T.cmp('<', r, imod(N, W)), r, imod(N, W)))


def split_sub_calls(N, r, W):
    # properties.jsonl C16: "sub_calls = total/world + (rank < total%world)";
    # doc of mpi_plain: "each process evaluates calls/world calls, the first calls%world one more"
    return add(idiv(N, W), ite(T.cmp('<', r, imod(N, W)), ONE, ZERO))


def split_after(N, c, r, W):
    # properties.jsonl C16: "discard_after = total - before - calls (clamped at 0)"
    b = split_before(N, r, W)
    return ite(T.cmp('<', add(b, c), N), sub(sub(N, b), c), ZERO)

# Tiling theorem (proved here once, on paper, from the canonical forms above; q = N div W,
# m = N mod W, so N = q*W + m with 0 <= m < W):
#   sub(r)      = q + [r < m]                      -> shares differ by at most one
#   before(r)   = q*r + min(r, m)
#   before(r+1) - before(r) = q + (min(r+1,m) - min(r,m)) = q + [r < m] = sub(r)   (contiguous)
#   before(0)   = 0,  before(W) = q*W + min(W, m) = q*W + m = N                     (exact cover)
#   before(r) + sub(r) = before(r+1) <= before(W) = N, hence the clamp in `after` is never
#   active for r < W and after(r) = N - before(r) - sub(r) = N - before(r+1)  (all ranks end at N)
# The static check establishes that the code *is* these canonical forms at every site.


# ---- results (mc_result.hpp class documentation; results.dox) --------------------------------
def mc_value(sum_, n):
    # E = 1/N sum f(x_i)
    return div(sum_, n)


def mc_variance(sum_, sumsq, n):
    # S^2 = 1/(N-1) [ 1/N sum f^2 - E^2 ]
    e = div(sum_, n)
    return div(sub(div(sumsq, n), mul(e, e)), sub(n, ONE))


# ---- combining results (mc_helper.hpp doc of weighted_with_variance / weighted_equally /
# chi_square_dof; results.dox) --------------------------------------------------------------------
def elem(R, i, field):
    return fld(sel(R, i), field)


def elem_value(R, i):
    return mc_value(elem(R, i, 'sum_'), elem(R, i, 'calls_'))


def elem_variance(R, i):
    return mc_variance(elem(R, i, 'sum_'), elem(R, i, 'sum_of_squares_'), elem(R, i, 'calls_'))


def wv_weight_sum(R, n, k):
    # sum over results with non_zero_calls != 0 of 1/S_i^2
    return ('sum', k, ZERO, n, ite(T.cmp('!=', elem(R, k, 'non_zero_calls_'), ZERO),
                                   div(ONE, elem_variance(R, k)), ZERO))


def wv_weighted_values(R, n, k):
    return ('sum', k, ZERO, n, ite(T.cmp('!=', elem(R, k, 'non_zero_calls_'), ZERO),
                                   mul(div(ONE, elem_variance(R, k)), elem_value(R, k)), ZERO))


def wv_estimate(R, n, k):
    # E = sum(E_i/S_i^2) / sum(1/S_i^2)
    return div(wv_weighted_values(R, n, k), wv_weight_sum(R, n, k))


def wv_variance(R, n, k):
    # S^2 = 1 / sum(1/S_i^2)
    return div(ONE, wv_weight_sum(R, n, k))


def counter_sum(R, n, k, field):
    return ('sum', k, ZERO, n, elem(R, k, field))


def we_mean(R, n, k):
    return div(('sum', k, ZERO, n, elem_value(R, k)), n)


def we_variance(R, n, k):
    # standard error of the mean squared: (sum E_i^2 / M - E^2) / (M - 1)
    m = we_mean(R, n, k)
    return div(sub(div(('sum', k, ZERO, n, mul(elem_value(R, k), elem_value(R, k))), n), mul(m, m)),
               sub(n, ONE))


def chi2_dof(R, n, k, mean):
    # sum (E_i - E)^2 / S_i^2 / (n - 1)
    d = sub(elem_value(R, k), mean)
    return div(('sum', k, ZERO, n, div(mul(d, d), elem_variance(R, k))), sub(n, ONE))

# Consequences used by the property text (paper derivation from the forms above, positive S_i^2):
#   weights w_i = 1/S_i^2 > 0  =>  E = sum w_i E_i / sum w_i is a convex combination, hence
#   min E_i <= E <= max E_i;  1/S^2 = sum w_i >= w_i  =>  S <= S_i for every i;
#   both sums are commutative reductions whose terms depend on the current element only
#   (rule R4), hence the result does not depend on the order of the results.


# ---- multi channel weights (multi_channel.dox; doc of multi_channel_refine_weights) ------------
def mc_unnormalised(w, d, beta, k):
    # alpha_i * W_i^beta
    return mul(sel(w, k), fn('pow', sel(d, k), beta))


def mc_prenorm(w, d, beta, minw, n, k, i):
    # enabled channel: max(alpha_k W_k^beta / sum_i alpha_i W_i^beta, minimum weight);
    # disabled channel (weight zero): stays zero
    nw = mc_unnormalised(w, d, beta, k)
    tot = ('sum', i, ZERO, n, mc_unnormalised(w, d, beta, i))
    return ite(T.cmp('==', nw, ZERO), ZERO, fn('fmax', div(nw, tot), minw))


# ---- VEGAS grid refinement (vegas_pdf.dox; Lepage 1978; doc of vegas_refine_pdf) ----------------
def vegas_importance(t, norm, alpha):
    # damped importance of a bin with smoothed datum t:  ((r - 1)/log r)^alpha,  r = t / norm
    r_ = div(t, norm)
    return fn('pow', div(sub(r_, ONE), fn('log', r_)), alpha)


def vegas_new_left(cur, prev, overshoot, imp_prev):
    # the new boundary lies inside old bin (prev, cur): cur - (cur - prev) * overshoot / importance
    return sub(cur, div(mul(sub(cur, prev), overshoot), imp_prev))
