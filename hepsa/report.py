"""Verdict collection, known-finding matching, evidence and replay files."""
import json
import os
import re
import time

from .frontend import VERIF, AnalysisBroken

EVIDENCE = os.path.join(VERIF, 'evidence')
OUT = os.path.join(VERIF, 'out')
KNOWN = os.path.join(VERIF, 'KNOWN_FINDINGS.txt')


class Instance:
    def __init__(self, rule, site, verdict, detail, witness=None, inst=None):
        self.rule = rule
        self.site = site
        self.verdict = verdict      # HOLDS | VIOLATION | BROKEN | WARNING
        self.detail = detail
        self.witness = witness
        self.inst = inst

    def key(self):
        return (self.rule, self.site)

    def as_dict(self):
        d = {'rule': self.rule, 'site': self.site, 'verdict': self.verdict, 'detail': self.detail}
        if self.witness is not None:
            d['witness'] = self.witness
        if self.inst:
            d['instantiation'] = self.inst
        return d


def load_known():
    known = []
    fixed = []
    if not os.path.exists(KNOWN):
        return known, fixed
    for line in open(KNOWN):
        line = line.strip()
        if not line or line.startswith('#'):
            continue
        m = re.match(r'^known:\s+property=(\S+)\s+rule=(\S+)\s+site=(\S+)\s*(.*)$', line)
        if m:
            known.append({'property': m.group(1), 'rule': m.group(2), 'site': m.group(3),
                          'what': m.group(4)})
            continue
        m = re.match(r'^fixed:\s+property=(\S+)\s+(\S+)\s+(.*)$', line)
        if m:
            fixed.append({'property': m.group(1), 'commit': m.group(2), 'what': m.group(3)})
    return known, fixed


class Ctx:
    def __init__(self, pid, tier, prog, seed=0):
        self.pid = pid
        self.tier = tier
        self.prog = prog
        self.seed = seed
        self.instances = []
        self.assumptions = []
        self.analysed_functions = set()
        self.counts = {}
        self.inst_label = None
        self.notes = []
        self.t0 = time.time()
        self.controls = []
        self.quiet = False

    # -- recording --
    def holds(self, rule, site, detail):
        self.instances.append(Instance(rule, site, 'HOLDS', detail, inst=self.inst_label))

    def violation(self, rule, site, detail, witness=None):
        self.instances.append(Instance(rule, site, 'VIOLATION', detail, witness,
                                       inst=self.inst_label))

    def broken(self, rule, site, detail):
        self.instances.append(Instance(rule, site, 'BROKEN', detail, inst=self.inst_label))

    def warn(self, rule, site, detail):
        self.instances.append(Instance(rule, site, 'WARNING', detail, inst=self.inst_label))

    def assume(self, text):
        if text not in self.assumptions:
            self.assumptions.append(text)

    def analysed(self, func):
        self.analysed_functions.add('%s @%s' % (func.qualname[:120], func.where()))

    def count(self, name, n, minimum=None):
        """Record an instance count; below the hand-confirmed minimum the analysis is broken."""
        self.counts[name] = n
        if minimum is not None and n < minimum:
            self.broken('gate', name, 'instance count %d fell below the confirmed minimum %d '
                        '(anchor vanished or shape no longer recognised)' % (n, minimum))

    def guard(self, rule, site, fn):
        """Run one rule instance; unexpected shapes become BROKEN, never pass or violation."""
        try:
            fn()
        except AnalysisBroken as e:
            self.broken(rule, site, str(e))
        except (KeyError, IndexError, AttributeError, TypeError, ValueError, AssertionError) as e:
            import traceback
            tb = traceback.format_exc().strip().splitlines()
            self.broken(rule, site, 'rule could not be evaluated on this shape: %s: %s [%s]'
                        % (type(e).__name__, e, ' | '.join(x.strip() for x in tb[-4:-1])))


def finish(ctx):
    """Print verdicts, write evidence and replay files; return the exit code."""
    pid = ctx.pid
    known, fixed = load_known()
    known = [k for k in known if k['property'] == pid]
    viol = [i for i in ctx.instances if i.verdict == 'VIOLATION']
    broken = [i for i in ctx.instances if i.verdict == 'BROKEN']
    holds = [i for i in ctx.instances if i.verdict == 'HOLDS']
    warns = [i for i in ctx.instances if i.verdict == 'WARNING']

    def is_known(i):
        for k in known:
            if k['rule'] == i.rule and (i.site == k['site'] or i.site.startswith(k['site'])):
                return k
        return None

    new_viol = []
    seen_known = []
    for i in viol:
        k = is_known(i)
        if k:
            if k not in seen_known:
                seen_known.append(k)
                print('KNOWN-FINDING: property=%s rule=%s site=%s %s' % (pid, i.rule, i.site,
                                                                          k['what']))
        else:
            new_viol.append(i)
    outdir = os.path.join(OUT, pid)
    os.makedirs(outdir, exist_ok=True)
    for f in os.listdir(outdir):
        if f.startswith('violation-'):
            os.unlink(os.path.join(outdir, f))
    # distinct violations by (rule, site)
    distinct = {}
    for i in new_viol:
        distinct.setdefault(i.key(), i)
    rc = 0
    n = 0
    for key, i in distinct.items():
        n += 1
        path = os.path.join(outdir, 'violation-%d.json' % n)
        with open(path, 'w') as fh:
            json.dump({'property': pid, 'rule': i.rule, 'site': i.site, 'detail': i.detail,
                       'witness': i.witness, 'instantiation': i.inst,
                       'replay': './check %s --replay %s' % (pid, path)}, fh, indent=1,
                      default=str)
        print('%s:%s: %s' % (i.site, i.rule, i.detail))
        if i.witness is not None:
            w = json.dumps(i.witness, default=str)
            print('    witness: %s' % (w if len(w) < 1500 else w[:1500] + '...'))
        print('VIOLATION property=%s replay=%s' % (pid, path))
        rc = 1
    if broken:
        for i in broken:
            print('ANALYSIS-BROKEN %s %s: %s' % (i.rule, i.site, i.detail))
        if rc == 0:
            rc = 2
    for i in warns:
        print('warning %s %s: %s' % (i.rule, i.site, i.detail))
    if not ctx.quiet:
        print('%s: %d rule instances: %d hold, %d violation(s) (%d known), %d broken, %d warning(s)'
              % (pid, len(ctx.instances), len(holds), len(viol), len(viol) - len(new_viol),
                 len(broken), len(warns)))
    write_evidence(ctx, holds, viol, new_viol, broken, warns, seen_known)
    return rc


def write_evidence(ctx, holds, viol, new_viol, broken, warns, seen_known):
    os.makedirs(EVIDENCE, exist_ok=True)
    distinct = set(i.key() for i in ctx.instances if i.verdict in ('HOLDS', 'VIOLATION'))
    samples = []
    seen = set()
    for i in ctx.instances:
        if i.key() in seen:
            continue
        seen.add(i.key())
        d = i.as_dict()
        if d.get('witness') is not None:
            w = json.dumps(d['witness'], default=str)
            if len(w) > 1200:
                d['witness'] = w[:1200] + '...'
        if len(d.get('detail') or '') > 900:
            d['detail'] = d['detail'][:900] + '...'
        samples.append(d)
    obligations = len([i for i in ctx.instances if i.verdict != 'WARNING'])
    ev = {
        'property_id': ctx.pid,
        'tier': ctx.tier if ctx.tier in ('quick', 'thorough') else 'quick',
        'seed': ctx.seed,
        'level': 'other',
        'coverage': {
            'explanation': ('Static analysis of the type-checked clang AST of /repo (template '
                            'instantiations forced by driver/instantiate.cpp, -fsyntax-only; '
                            'nothing is compiled to an executable or run). Each rule instance is '
                            'a (rule, source construct) pair decided by expression normal forms, '
                            'finite abstract domains, dominance/ordering or reader/writer '
                            'agreement; see DESIGN.md section 4 for the rules of this property.'),
            'evaluations': max(1, obligations),
            'distinct_nontrivial': len(distinct),
            'rule': ('one evaluation = one rule instance (rule x source construct x template '
                     'instantiation); distinct_nontrivial counts distinct (rule, construct) pairs '
                     'that matched a real construct of the tree and were positively decided'),
            'obligations': obligations,
            'discharged': len(holds),
            'samples': samples[:60],
            'functions_analysed': sorted(ctx.analysed_functions),
            'instance_counts': ctx.counts,
            'front_end': ctx.prog.stats if ctx.prog is not None else {},
            'violations_new': len(set(i.key() for i in new_viol)),
            'violations_known': [k['site'] + ' ' + k['rule'] for k in seen_known],
            'analysis_broken': [i.as_dict() for i in broken][:20],
            'warnings': [i.as_dict() for i in warns][:20],
            'negative_controls': ctx.controls,
            'exhaustive': True,
        },
        'assumptions': ctx.assumptions,
        'wall_s': round(time.time() - ctx.t0, 2),
        'violations': len(set(i.key() for i in new_viol)),
    }
    path = os.path.join(EVIDENCE, '%s.json' % ctx.pid)
    tmp = path + '.tmp%d' % os.getpid()
    with open(tmp, 'w') as fh:
        json.dump(ev, fh, indent=1, default=str)
    os.replace(tmp, path)
