"""Command line driver of the static checks."""
import argparse
import importlib
import json
import os
import sys
import time

from . import frontend, report
from .frontend import AnalysisBroken

# the quick tier analyses two numeric types: `double` is also the type of unsuffixed literals and of
# default template arguments, so a place that silently falls back to double is only visible with
# another T (seeded change C10-selector-default-type)
INSTANTIATIONS_QUICK = [
    ('float', 'std::mt19937'),
    # long double: conversions to a narrower floating type (e.g. an unqualified sqrt that resolves to
    # ::sqrt(double)) only exist in this instantiation (seeded change C13-sqrt-double-overload)
    ('long double', 'std::mt19937_64'),
]
INSTANTIATIONS_THOROUGH = [
    ('double', 'std::minstd_rand'),
    ('double', 'std::ranlux48'),
    ('float', 'std::knuth_b'),
]


def run_rules(pid, ctx, prog, label=None):
    mod = importlib.import_module('hepsa.rules.' + pid)
    ctx.prog = prog
    ctx.inst_label = label
    mod.check(ctx)


def _load(args):
    repo, numeric, engine = args
    try:
        frontend.load(repo, numeric=numeric, engine=engine)
    except Exception:
        pass
    return True


def preload(repo, insts):
    """parse the instantiations concurrently (each is one clang run); results land in the
    content-addressed cache and are picked up by the sequential loads below"""
    from concurrent.futures import ProcessPoolExecutor
    try:
        with ProcessPoolExecutor(max_workers=min(8, len(insts))) as ex:
            list(ex.map(_load, [(repo, n, e) for n, e in insts]))
    except Exception:
        pass


def main(argv):
    ap = argparse.ArgumentParser()
    ap.add_argument('pid')
    ap.add_argument('--tier', default=os.environ.get('VERIF_TIER', 'quick'))
    ap.add_argument('--replay', default=None)
    ap.add_argument('--repo', default=os.environ.get('VERIF_REPO', '/repo'))
    ap.add_argument('--no-controls', action='store_true')
    ap.add_argument('--no-cache', action='store_true')
    a = ap.parse_args(argv)
    pid = a.pid
    tier = a.tier if a.tier in ('quick', 'thorough') else 'quick'
    seed = int(os.environ.get('VERIF_SEED', '0') or 0)
    t0 = time.time()
    ctx = report.Ctx(pid, tier, None, seed)
    extra = list(INSTANTIATIONS_QUICK)
    if tier == 'thorough':
        extra += INSTANTIATIONS_THOROUGH
    preload(a.repo, [('double', 'std::mt19937')] + extra)
    try:
        prog = frontend.load(a.repo, use_cache=not a.no_cache)
    except AnalysisBroken as e:
        print('ANALYSIS-BROKEN front end: %s' % e)
        ctx.broken('frontend', a.repo, str(e))
        report.finish(ctx)
        return 2
    ctx.prog = prog
    for pr in prog.stats.get('coverage_problems', []):
        ctx.warn('coverage', 'driver/instantiate.cpp', pr)
    for note in getattr(prog, 'field_alias_notes', []):
        ctx.assume('renamed data member: ' + note)
    ctx.assume('clang 14 front end (name resolution, template instantiation, JSON AST dump) is correct')
    ctx.assume('real arithmetic for finite operands (no overflow/underflow); IEEE-754 '
               'classification for NaN and infinities')
    ctx.assume('user callbacks (integrand, channel map, user callback) are opaque and only touch '
               'what the protocol hands them')
    try:
        run_rules(pid, ctx, prog, 'double/std::mt19937')
    except AnalysisBroken as e:
        ctx.broken('rules', pid, str(e))
    for numeric, engine in extra:
        label = '%s/%s' % (numeric, engine)
        try:
            p2 = frontend.load(a.repo, numeric=numeric, engine=engine)
            run_rules(pid, ctx, p2, label)
        except AnalysisBroken as e:
            ctx.broken('instantiation', label, str(e))
    ctx.prog = prog
    if tier == 'thorough':
        if not a.no_controls:
            from . import controls
            controls.run(pid, ctx, a.repo)
    if a.replay:
        try:
            rec = json.load(open(a.replay))
        except Exception as e:
            print('cannot read replay file: %s' % e)
            return 2
        print('replay of %s %s:' % (rec.get('rule'), rec.get('site')))
        hit = [i for i in ctx.instances if i.rule == rec.get('rule') and i.site == rec.get('site')]
        for i in hit:
            print('  %s: %s' % (i.verdict, i.detail))
            if i.witness is not None:
                print('  witness: %s' % json.dumps(i.witness, default=str))
        if not hit:
            print('  the recorded rule instance no longer exists on this tree')
    return report.finish(ctx)
