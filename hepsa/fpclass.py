"""E2: abstract interpretation of terms over finite domains.

Floating-point values are abstracted by subsets of the IEEE classes {NaN, -inf, Neg, Zero, Pos, +inf}
(Zero covers both signed zeros); booleans by subsets of {T, F}.  Arithmetic follows the IEEE
*classification* (0/0 = NaN, x/0 = +-inf, 0*inf = NaN, NaN absorbing, every ordered comparison with
NaN false) and real arithmetic otherwise: finite (+) finite stays finite, Pos*Pos = Pos (overflow
and underflow of finite operands are assumed away - standing assumption, printed in the evidence).
Branch conditions refine the abstract value of the compared sub-term.  A value that depends on an
atom without a declared class is *tainted*: an alarm depending on it is analysis-broken, never a
violation.
"""
from . import terms as T

NAN, NINF, NEG, ZERO, POS, PINF = 1, 2, 4, 8, 16, 32
TOP = NAN | NINF | NEG | ZERO | POS | PINF
FINITE = NEG | ZERO | POS
NONFINITE = NAN | NINF | PINF
NONNEG = ZERO | POS
BT, BF = 1, 2
BTOP = 3
NAMES = {NAN: 'NaN', NINF: '-inf', NEG: 'Neg', ZERO: 'Zero', POS: 'Pos', PINF: '+inf'}
ALL = (NAN, NINF, NEG, ZERO, POS, PINF)


def show(s):
    if s is None:
        return '?'
    return '{' + ','.join(NAMES[c] for c in ALL if s & c) + '}'


def showb(b):
    return '{' + ','.join(n for v, n in ((BT, 'T'), (BF, 'F')) if b & v) + '}'


def classes(s):
    return [c for c in ALL if s & c]


def neg1(c):
    return {NAN: NAN, NINF: PINF, NEG: POS, ZERO: ZERO, POS: NEG, PINF: NINF}[c]


def add1(a, b):
    if a == NAN or b == NAN:
        return NAN
    if a in (PINF, NINF) or b in (PINF, NINF):
        if (a == PINF and b == NINF) or (a == NINF and b == PINF):
            return NAN
        return a if a in (PINF, NINF) else b
    if a == ZERO:
        return b
    if b == ZERO:
        return a
    if a == b:
        return a
    return NEG | ZERO | POS


def mul1(a, b):
    if a == NAN or b == NAN:
        return NAN
    inf_a = a in (PINF, NINF)
    inf_b = b in (PINF, NINF)
    if (inf_a and b == ZERO) or (inf_b and a == ZERO):
        return NAN
    if a == ZERO or b == ZERO:
        return ZERO
    neg = (a in (NINF, NEG)) != (b in (NINF, NEG))
    if inf_a or inf_b:
        return NINF if neg else PINF
    return NEG if neg else POS


def div1(a, b):
    if a == NAN or b == NAN:
        return NAN
    inf_a = a in (PINF, NINF)
    inf_b = b in (PINF, NINF)
    if inf_a and inf_b:
        return NAN
    if b == ZERO:
        if a == ZERO:
            return NAN
        return PINF | NINF      # the sign of the zero is not tracked
    if inf_b:
        return ZERO
    if a == ZERO:
        return ZERO
    neg = (a in (NINF, NEG)) != (b in (NINF, NEG))
    if inf_a:
        return NINF if neg else PINF
    return NEG if neg else POS


def lift2(f, A, B):
    r = 0
    for a in ALL:
        if A & a:
            for b in ALL:
                if B & b:
                    r |= f(a, b)
    return r


def lift1(f, A):
    r = 0
    for a in ALL:
        if A & a:
            r |= f(a)
    return r


def sqrt1(a):
    return {NAN: NAN, NINF: NAN, NEG: NAN, ZERO: ZERO, POS: POS, PINF: PINF}[a]


def fabs1(a):
    return {NAN: NAN, NINF: PINF, NEG: POS, ZERO: ZERO, POS: POS, PINF: PINF}[a]


def log1(a):
    return {NAN: NAN, NINF: NAN, NEG: NAN, ZERO: NINF, POS: NEG | ZERO | POS, PINF: PINF}[a]


def pow1(a, b):
    # C99 pow, by class (conservative where the result depends on magnitude / parity)
    if b == ZERO:
        return POS                      # pow(x, 0) = 1 for every x, NaN included
    if a == NAN or b == NAN:
        return NAN | POS                # pow(1, NaN) = 1
    if a == POS:
        if b in (NEG, POS):
            return POS
        return ZERO | POS | PINF        # pow(x, +-inf): 0, 1 or inf
    if a == ZERO:
        if b in (POS, PINF):
            return ZERO
        return PINF
    if a == PINF:
        return PINF if b in (POS, PINF) else ZERO
    if a == NINF:
        return NINF | PINF | ZERO
    # a == NEG
    if b in (PINF, NINF):
        return ZERO | POS | PINF
    return NAN | NEG | POS


def fmax1(a, b):
    if a == NAN:
        return b
    if b == NAN:
        return a
    order = [NINF, NEG, ZERO, POS, PINF]
    ia, ib = order.index(a), order.index(b)
    if ia == ib:
        return a
    return order[max(ia, ib)]


def fmin1(a, b):
    if a == NAN:
        return b
    if b == NAN:
        return a
    order = [NINF, NEG, ZERO, POS, PINF]
    ia, ib = order.index(a), order.index(b)
    return order[min(ia, ib)]


def cmp1(op, a, b):
    """truth set of a (op) b for single classes"""
    if a == NAN or b == NAN:
        return BT if op == '!=' else BF
    order = {NINF: 0, NEG: 1, ZERO: 2, POS: 3, PINF: 4}
    ia, ib = order[a], order[b]
    if ia != ib:
        lt = ia < ib
        return {'<': BT if lt else BF, '<=': BT if lt else BF, '>': BF if lt else BT,
                '>=': BF if lt else BT, '==': BF, '!=': BT}[op]
    # same class
    if a in (NINF, PINF, ZERO):
        return {'<': BF, '<=': BT, '>': BF, '>=': BT, '==': BT, '!=': BF}[op]
    return BTOP


class Env:
    def __init__(self, vals=None, bools=None, anysel=None, witnesses=None):
        self.vals = dict(vals or {})      # term -> class set
        self.bools = dict(bools or {})    # cond term -> bool set
        self.anysel = dict(anysel or {})  # vector term -> class set of every element
        # witnesses: (index symbol w, lo, hi): "some index w in [lo,hi) for which the facts
        # recorded in vals about terms mentioning w hold" (from: a sum of non-negative terms is
        # positive iff one of its terms is)
        self.witnesses = list(witnesses or [])

    def copy(self):
        return Env(self.vals, self.bools, self.anysel, self.witnesses)

    def with_val(self, t, s):
        e = self.copy()
        e.vals[t] = s
        return e


class Result:
    __slots__ = ('cls', 'tainted', 'why')

    def __init__(self, cls, tainted=False, why=None):
        self.cls = cls
        self.tainted = tainted
        self.why = why


def ev(t, env):
    """class set of term t (as Result)."""
    if t in env.vals:
        return Result(env.vals[t])
    if not isinstance(t, tuple) or not t:
        return Result(TOP, True, 'non-term %r' % (t,))
    k = t[0]
    if k == 'num':
        v = t[1]
        return Result(ZERO if v == 0 else (POS if v > 0 else NEG))
    if k == 'bool':
        return Result(POS if t[1] else ZERO)
    if k in ('+', '-', '*', '/'):
        a = ev(t[1], env)
        b = ev(t[2], env)
        B = b.cls
        if k == '-':
            B = lift1(neg1, B)
        f = {'+': add1, '-': add1, '*': mul1, '/': div1}[k]
        return Result(lift2(f, a.cls, B), a.tainted or b.tainted, a.why or b.why)
    if k == 'neg':
        a = ev(t[1], env)
        return Result(lift1(neg1, a.cls), a.tainted, a.why)
    if k == 'ite':
        c = evb(t[1], env)
        r = 0
        tainted = c.tainted
        why = c.why
        if c.cls & BT:
            a = ev(t[2], refine(t[1], env, True))
            r |= a.cls
            tainted = tainted or a.tainted
            why = why or a.why
        if c.cls & BF:
            b = ev(t[3], refine(t[1], env, False))
            r |= b.cls
            tainted = tainted or b.tainted
            why = why or b.why
        return Result(r, tainted, why)
    if k == 'fn':
        name = t[1]
        args = [ev(a, env) for a in t[2:]]
        tainted = any(a.tainted for a in args)
        why = next((a.why for a in args if a.why), None)
        if name == 'sqrt' and len(args) == 1:
            return Result(lift1(sqrt1, args[0].cls), tainted, why)
        if name in ('fabs', 'abs') and len(args) == 1:
            return Result(lift1(fabs1, args[0].cls), tainted, why)
        if name == 'log' and len(args) == 1:
            return Result(lift1(log1, args[0].cls), tainted, why)
        if name == 'pow' and len(args) == 2:
            return Result(lift2(pow1, args[0].cls, args[1].cls), tainted, why)
        if name in ('fmax', 'max') and len(args) == 2:
            return Result(lift2(fmax1, args[0].cls, args[1].cls), tainted, why)
        if name in ('fmin', 'min') and len(args) == 2:
            return Result(lift2(fmin1, args[0].cls, args[1].cls), tainted, why)
        if name in ('nexttoward', 'nextafter') and len(args) == 2:
            # moves by one ulp: the class can only change between Zero and its neighbours
            a = args[0].cls
            r = a
            if a & POS:
                r |= ZERO
            if a & NEG:
                r |= ZERO
            if a & ZERO:
                r |= POS | NEG
            if a & PINF:
                r |= POS
            if a & NINF:
                r |= NEG
            return Result(r, tainted, why)
        if name in ('isfinite', 'isnan', 'isinf'):
            b = evb(t, env)
            return Result((POS if b.cls & BT else 0) | (ZERO if b.cls & BF else 0), b.tainted, b.why)
        return Result(TOP, True, 'unknown function %s' % name)
    if k in ('sum', 'prod'):
        # ('sum', idx, lo, hi, body): any number (>= 0) of terms of the body's class
        b = ev(t[4], env)
        if k == 'sum':
            r = ZERO
            f = add1
        else:
            r = POS
            f = mul1
        for _ in range(8):
            n = r | lift2(f, r, b.cls)
            if n == r:
                break
            r = n
        if k == 'sum' and not (b.cls & ~NONNEG) and (r & ZERO):
            # all terms non-negative: the sum is positive if the term at a witness index is
            for (w, lo, hi) in env.witnesses:
                if (lo, hi) == (t[2], t[3]):
                    bw = ev(T.subst(t[4], {t[1]: w}), env)
                    if not bw.tainted and bw.cls == POS:
                        r = POS
                        break
        return Result(r, b.tainted, b.why)
    if k == 'sel':
        v = t[1]
        if v in env.anysel:
            return Result(env.anysel[v])
        if isinstance(v, tuple) and v and v[0] == 'vupd':
            a = ev(v[3], env)
            b = ev(('sel', v[1], t[2]), env)
            return Result(a.cls | b.cls, a.tainted or b.tainted, a.why or b.why)
        return Result(TOP, True, 'element of %s has no declared class' % T.pretty(v)[:80])
    if k in ('<', '<=', '>', '>=', '==', '!=', 'and', 'or', 'not', 'truth'):
        b = evb(t, env)
        return Result((POS if b.cls & BT else 0) | (ZERO if b.cls & BF else 0), b.tainted, b.why)
    if k == 'trunc':
        a = ev(t[1], env)
        r = 0
        if a.cls & (POS):
            r |= ZERO | POS
        if a.cls & ZERO:
            r |= ZERO
        if a.cls & (NEG | NAN | NINF | PINF):
            return Result(TOP, True, 'conversion of a possibly negative / non-finite value')
        return Result(r, a.tainted, a.why)
    if k in ('idiv', 'imod'):
        a = ev(t[1], env)
        return Result(ZERO | POS, a.tainted, a.why)
    if k == 'size':
        return Result(ZERO | POS)
    if k == 'const':
        c = str(t[1])
        if c == 'inf':
            return Result(PINF)
        if c.startswith('limits::max') or c.startswith('limits::epsilon') or c.startswith('limits::min'):
            return Result(POS)
        if c.startswith('limits::lowest'):
            return Result(NEG)
        if c.startswith('limits::quiet_NaN'):
            return Result(NAN)
    return Result(TOP, True, 'atom without declared class: %s' % T.pretty(t)[:100])


def evb(c, env):
    """truth set of condition c (Result with cls a subset of {T,F})."""
    if c in env.bools:
        return Result(env.bools[c])
    if not isinstance(c, tuple) or not c:
        return Result(BTOP, True, 'non-term condition')
    k = c[0]
    if k == 'bool':
        return Result(BT if c[1] else BF)
    if k == 'not':
        a = evb(c[1], env)
        r = (BT if a.cls & BF else 0) | (BF if a.cls & BT else 0)
        return Result(r, a.tainted, a.why)
    if k == 'and':
        a = evb(c[1], env)
        r = 0
        tainted, why = a.tainted, a.why
        if a.cls & BF:
            r |= BF
        if a.cls & BT:
            b = evb(c[2], refine(c[1], env, True))
            r |= b.cls
            tainted = tainted or b.tainted
            why = why or b.why
        return Result(r, tainted, why)
    if k == 'or':
        a = evb(c[1], env)
        r = 0
        tainted, why = a.tainted, a.why
        if a.cls & BT:
            r |= BT
        if a.cls & BF:
            b = evb(c[2], refine(c[1], env, False))
            r |= b.cls
            tainted = tainted or b.tainted
            why = why or b.why
        return Result(r, tainted, why)
    if k in ('<', '<=', '>', '>=', '==', '!='):
        a = ev(c[1], env)
        b = ev(c[2], env)
        r = 0
        for x in classes(a.cls):
            for y in classes(b.cls):
                r |= cmp1(k, x, y)
        # comparisons against a non-zero literal inside the same class are undetermined
        return Result(r, a.tainted or b.tainted, a.why or b.why)
    if k == 'fn' and c[1] in ('isfinite', 'isnan', 'isinf'):
        a = ev(c[2], env)
        r = 0
        for x in classes(a.cls):
            if c[1] == 'isfinite':
                r |= BT if x in (NEG, ZERO, POS) else BF
            elif c[1] == 'isnan':
                r |= BT if x == NAN else BF
            else:
                r |= BT if x in (PINF, NINF) else BF
        return Result(r, a.tainted, a.why)
    if k == 'truth':
        a = ev(c[1], env)
        r = 0
        for x in classes(a.cls):
            r |= BF if x == ZERO else BT
        return Result(r, a.tainted, a.why)
    if k == 'ite':
        cc = evb(c[1], env)
        r = 0
        tainted, why = cc.tainted, cc.why
        if cc.cls & BT:
            a = evb(c[2], refine(c[1], env, True))
            r |= a.cls
            tainted = tainted or a.tainted
        if cc.cls & BF:
            b = evb(c[3], refine(c[1], env, False))
            r |= b.cls
            tainted = tainted or b.tainted
        return Result(r, tainted, why)
    return Result(BTOP, True, 'condition without declared truth: %s' % T.pretty(c)[:100])


def refine(c, env, truth):
    """Environment refined by assuming condition c has the given truth value."""
    if not isinstance(c, tuple) or not c:
        return env
    k = c[0]
    if k == 'not':
        return refine(c[1], env, not truth)
    if k == 'and':
        if truth:
            return refine(c[2], refine(c[1], env, True), True)
        return env
    if k == 'or':
        if not truth:
            return refine(c[2], refine(c[1], env, False), False)
        return env
    e = env.copy()
    e.bools[c] = BT if truth else BF
    neg = T.lnot(c)
    e.bools[neg] = BF if truth else BT
    if k in ('<', '<=', '>', '>=', '==', '!='):
        a, b = c[1], c[2]
        A = ev(a, env).cls
        B = ev(b, env).cls
        keepA = 0
        keepB = 0
        for x in classes(A):
            for y in classes(B):
                tr = cmp1(k, x, y)
                if (truth and tr & BT) or ((not truth) and tr & BF):
                    keepA |= x
                    keepB |= y
        if not T.is_num(a):
            assume_class(e, a, keepA)
        if not T.is_num(b):
            assume_class(e, b, keepB)
        # equivalent spellings of the same comparison
        flip = {'<': '>', '<=': '>=', '>': '<', '>=': '<=', '==': '==', '!=': '!='}[k]
        e.bools[(flip, b, a)] = BT if truth else BF
        opp = {'<': '>=', '<=': '>', '>': '<=', '>=': '<', '==': '!=', '!=': '=='}[k]
        if k in ('==', '!='):
            e.bools[(opp, a, b)] = BF if truth else BT
            e.bools[(opp, b, a)] = BF if truth else BT
        return e
    if k == 'fn' and c[1] in ('isfinite', 'isnan', 'isinf'):
        a = c[2]
        A = ev(a, env).cls
        keep = 0
        for x in classes(A):
            if c[1] == 'isfinite':
                t_ = x in (NEG, ZERO, POS)
            elif c[1] == 'isnan':
                t_ = x == NAN
            else:
                t_ = x in (PINF, NINF)
            if t_ == truth:
                keep |= x
        e.vals[a] = keep
        return e
    if k == 'truth':
        a = c[1]
        A = ev(a, env).cls
        keep = 0
        for x in classes(A):
            if (x != ZERO) == truth:
                keep |= x
        e.vals[a] = keep
        return e
    return e


_wcount = [0]


def assume_class(e, t, cls):
    """Record that term t has a class within cls and propagate backwards where that is exact:
    a positive product of non-negative factors has positive factors; a positive sum of
    non-negative terms has a positive term (witness index)."""
    old = ev(t, e).cls
    new = old & cls
    e.vals[t] = new
    if not isinstance(t, tuple) or not t:
        return
    if new == POS:
        if t[0] == '*':
            a = ev(t[1], e).cls
            b = ev(t[2], e).cls
            if not (a & ~NONNEG) and not (b & ~NONNEG):
                assume_class(e, t[1], POS)
                assume_class(e, t[2], POS)
        elif t[0] == 'sum':
            body = ev(t[4], e)
            if not body.tainted and not (body.cls & ~NONNEG):
                _wcount[0] += 1
                w = ('sym', '_witness%d' % _wcount[0])
                T.RANGES[w] = (t[2], t[3])
                e.witnesses = e.witnesses + [(w, t[2], t[3])]
                assume_class(e, T.subst(t[4], {t[1]: w}), POS)
        elif t[0] == 'fn' and t[1] == 'pow' and len(t) == 4:
            x = ev(t[2], e).cls
            y = ev(t[3], e).cls
            if not (x & ~NONNEG) and y == POS:
                assume_class(e, t[2], POS)
        elif t[0] == 'ite':
            pass
    if new == ZERO and t[0] == 'sum':
        body = ev(t[4], e)
        if not body.tainted and not (body.cls & ~NONNEG):
            # a zero sum of non-negative terms: every term is zero
            e.vals[('allzero', t[1], t[2], t[3], t[4])] = ZERO


def resolve(t, env):
    """Simplify t by resolving every ite whose condition is definite under env."""
    def go(x, en):
        if not isinstance(x, tuple) or not x or not isinstance(x[0], str) or x[0] in ('lv', 'ref'):
            return x
        if x[0] in ('num', 'sym', 'bool', 'str', 'chr', 'enum'):
            return x
        if x[0] == 'ite':
            c = evb(x[1], en)
            if c.cls == BT and not c.tainted:
                return go(x[2], refine(x[1], en, True))
            if c.cls == BF and not c.tainted:
                return go(x[3], refine(x[1], en, False))
            return T.ite(x[1], go(x[2], refine(x[1], en, True)), go(x[3], refine(x[1], en, False)))
        if x[0] == 'obj':
            return ('obj', x[1], go(x[2], en) if x[2] is not None else None,
                    tuple((n, go(v, en)) for n, v in x[3]))
        kids = tuple(go(c, en) for c in x[1:])
        rb = T.REBUILD.get(x[0])
        if rb is not None and len(kids) == rb.__code__.co_argcount:
            return rb(*kids)
        return (x[0],) + kids
    return go(t, env)
