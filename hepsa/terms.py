"""Immutable term language used by the def-use / normal-form engine (E1) and evaluated over finite
abstract domains by E2.  Terms are nested tuples; see constructors below.  Only IEEE-safe local
simplifications are applied here (constant folding on exact rationals, x+0, x*1, ite with
identical arms); algebraic identity testing is done separately (algebra.py)."""
from fractions import Fraction

ZERO = ('num', Fraction(0))
ONE = ('num', Fraction(1))
TRUE = ('bool', True)
FALSE = ('bool', False)


def num(v):
    if isinstance(v, str):
        return ('num', Fraction(v))
    return ('num', Fraction(v))


def sym(name):
    return ('sym', name)


def is_num(t):
    return isinstance(t, tuple) and t[0] == 'num'


def add(a, b):
    if is_num(a) and is_num(b):
        return ('num', a[1] + b[1])
    if a == ZERO:
        return b
    if b == ZERO:
        return a
    return ('+', a, b)


def sub(a, b):
    if is_num(a) and is_num(b):
        return ('num', a[1] - b[1])
    if b == ZERO:
        return a
    return ('-', a, b)


def mul(a, b):
    if is_num(a) and is_num(b):
        return ('num', a[1] * b[1])
    if a == ONE:
        return b
    if b == ONE:
        return a
    return ('*', a, b)


def div(a, b):
    if is_num(a) and is_num(b) and b[1] != 0:
        return ('num', a[1] / b[1])
    if b == ONE:
        return a
    return ('/', a, b)


def neg(a):
    if is_num(a):
        return ('num', -a[1])
    return ('neg', a)


def idiv(a, b):
    if is_num(a) and is_num(b) and b[1] != 0 and a[1] >= 0 and b[1] > 0:
        return ('num', Fraction(int(a[1]) // int(b[1])))
    if b == ONE:
        return a
    return ('idiv', a, b)


def imod(a, b):
    if is_num(a) and is_num(b) and b[1] != 0 and a[1] >= 0 and b[1] > 0:
        return ('num', Fraction(int(a[1]) % int(b[1])))
    return ('imod', a, b)


def cmp(op, a, b):
    if is_num(a) and is_num(b):
        x, y = a[1], b[1]
        r = {'<': x < y, '<=': x <= y, '>': x > y, '>=': x >= y, '==': x == y, '!=': x != y}[op]
        return TRUE if r else FALSE
    return (op, a, b)


def lnot(c):
    if c == TRUE:
        return FALSE
    if c == FALSE:
        return TRUE
    if isinstance(c, tuple) and c[0] == 'not':
        return c[1]
    return ('not', c)


def land(a, b):
    if a == TRUE:
        return b
    if b == TRUE:
        return a
    if a == FALSE or b == FALSE:
        return FALSE
    return ('and', a, b)


def lor(a, b):
    if a == FALSE:
        return b
    if b == FALSE:
        return a
    if a == TRUE or b == TRUE:
        return TRUE
    return ('or', a, b)


def conj(cs):
    r = TRUE
    for c in cs:
        r = land(r, c)
    return r


def ite(c, a, b):
    if c == TRUE:
        return a
    if c == FALSE:
        return b
    if a == b:
        return a
    if a == TRUE and b == FALSE:
        return c                      # c ? true : false
    if a == FALSE and b == TRUE:
        return lnot(c)                # c ? false : true
    return ('ite', c, a, b)


def join(c, a, b):
    """ite with structural distribution over objects and vector updates (used at control-flow
    joins, so that a location changed on one path only keeps its shape)."""
    if c == TRUE:
        return a
    if c == FALSE:
        return b
    if a == b:
        return a
    if isinstance(a, tuple) and isinstance(b, tuple):
        if a[0] == 'obj' and b[0] == 'obj' and a[2] == b[2]:
            names = []
            for n, _ in a[3] + b[3]:
                if n not in names:
                    names.append(n)
            d = {}
            for n in names:
                d[n] = join(c, fld(a, n), fld(b, n))
            return ('obj', a[1] or b[1], a[2], tuple(sorted(d.items())))
        if a[0] == 'obj' and a[2] is not None and a[2] == b:
            d = {n: join(c, v, fld(b, n)) for n, v in a[3]}
            return ('obj', a[1], a[2], tuple(sorted(d.items())))
        if b[0] == 'obj' and b[2] is not None and b[2] == a:
            d = {n: join(c, fld(a, n), v) for n, v in b[3]}
            return ('obj', b[1], b[2], tuple(sorted(d.items())))
        if a[0] == 'vupd' and b[0] == 'vupd' and a[2] == b[2]:
            return vupd(join(c, a[1], b[1]), a[2], join(c, a[3], b[3]))
        if a[0] == 'vupd' and _vbase(a) == _vbase(b) and len(_vchain(a)) <= 6:
            base = _vbase(a)
            idxs = []
            for i in _vchain(a) + _vchain(b):
                if i not in idxs:
                    idxs.append(i)
            if all(is_num(i) for i in idxs) or len(idxs) == 1:
                r = base
                for i in idxs:
                    r = vupd(r, i, join(c, sel(a, i), sel(b, i)))
                return r
        if b[0] == 'vupd' and _vbase(b) == a and len(_vchain(b)) <= 6:
            return join(lnot(c), b, a)
    return ite(c, a, b)


def _vbase(v):
    while isinstance(v, tuple) and v[0] == 'vupd':
        v = v[1]
    return v


def _vchain(v):
    out = []
    while isinstance(v, tuple) and v[0] == 'vupd':
        out.append(v[2])
        v = v[1]
    return out[::-1]


def fn(name, *args):
    return ('fn', name) + tuple(args)


# ---- objects -------------------------------------------------------------------------------

def mkobj(type_, fields, origin=None):
    return ('obj', type_, origin, tuple(sorted(fields.items())))


def obj_fields(o):
    return dict(o[3])


def fld(o, name):
    if isinstance(o, tuple):
        if o[0] == 'obj':
            for k, v in o[3]:
                if k == name:
                    return v
            if o[2] is not None:
                return fld(o[2], name)
            return ('undef', o[1], name)
        if o[0] == 'ite':
            return ite(o[1], fld(o[2], name), fld(o[3], name))
    return ('fld', o, name)


def setfld(o, name, v):
    if isinstance(o, tuple) and o[0] == 'obj':
        d = dict(o[3])
        d[name] = v
        return ('obj', o[1], o[2], tuple(sorted(d.items())))
    return ('obj', None, o, ((name, v),))


# ---- vectors -------------------------------------------------------------------------------

def vempty():
    return ('vzeros', ZERO)


RANGES = {}   # loop index symbol -> (lo, hi): the half-open range it runs over
SIZES = {}    # placeholder term -> size term


def _poly(t):
    """polynomial over opaque atoms: {sorted tuple of atoms: Fraction}; only +, -, *, neg and numbers
    are interpreted (exact integer / rational identities, no division)"""
    if is_num(t):
        return {(): t[1]} if t[1] != 0 else {}
    if isinstance(t, tuple) and t and t[0] in ('+', '-') and len(t) == 3:
        a, b = _poly(t[1]), _poly(t[2])
        out = dict(a)
        for m, c in b.items():
            out[m] = out.get(m, 0) + (c if t[0] == '+' else -c)
        return {m: c for m, c in out.items() if c != 0}
    if isinstance(t, tuple) and t and t[0] == 'neg':
        return {m: -c for m, c in _poly(t[1]).items()}
    if isinstance(t, tuple) and t and t[0] == '*' and len(t) == 3:
        a, b = _poly(t[1]), _poly(t[2])
        if len(a) * len(b) > 64:
            return {(t,): Fraction(1)}
        out = {}
        for m1, c1 in a.items():
            for m2, c2 in b.items():
                m = tuple(sorted(m1 + m2, key=repr))
                out[m] = out.get(m, 0) + c1 * c2
        return {m: c for m, c in out.items() if c != 0}
    return {(t,): Fraction(1)}


def _from_poly(p):
    """canonical term of a polynomial: monomials sorted, factors sorted"""
    if not p:
        return ZERO
    out = None
    for m in sorted(p, key=lambda m_: (len(m_), repr(m_))):
        c = p[m]
        t = None
        for a in m:
            t = a if t is None else ('*', t, a)
        if t is None:
            t = ('num', abs(c))
        elif abs(c) != 1:
            t = ('*', ('num', abs(c)), t)
        if out is None:
            out = t if c > 0 else ('neg', t)
        else:
            out = ('+', out, t) if c > 0 else ('-', out, t)
    return out


def canon(t):
    """canonical form modulo commutativity / associativity / distributivity of + - * (a ring
    identity: valid for unsigned integer arithmetic and over the reals); other operators are
    canonicalised in their arguments only"""
    if not isinstance(t, tuple) or not t:
        return t
    k = t[0]
    if k in ('num', 'sym', 'bool', 'str', 'chr', 'const', 'enum'):
        return t
    if k in ('+', '-', '*', 'neg'):
        def atom(x):
            return canon(x)
        p = _poly_c(t)
        return _from_poly(p)
    return (k,) + tuple(canon(c) if isinstance(c, tuple) else c for c in t[1:])


def _poly_c(t):
    """like _poly, but the atoms are canonicalised first"""
    if is_num(t):
        return {(): t[1]} if t[1] != 0 else {}
    if isinstance(t, tuple) and t and t[0] in ('+', '-') and len(t) == 3:
        a, b = _poly_c(t[1]), _poly_c(t[2])
        out = dict(a)
        for m, c in b.items():
            out[m] = out.get(m, 0) + (c if t[0] == '+' else -c)
        return {m: c for m, c in out.items() if c != 0}
    if isinstance(t, tuple) and t and t[0] == 'neg':
        return {m: -c for m, c in _poly_c(t[1]).items()}
    if isinstance(t, tuple) and t and t[0] == '*' and len(t) == 3:
        a, b = _poly_c(t[1]), _poly_c(t[2])
        if len(a) * len(b) > 256:
            return {(canon_args(t),): Fraction(1)}
        out = {}
        for m1, c1 in a.items():
            for m2, c2 in b.items():
                m = tuple(sorted(m1 + m2, key=repr))
                out[m] = out.get(m, 0) + c1 * c2
        return {m: c for m, c in out.items() if c != 0}
    return {(canon(t),): Fraction(1)}


def canon_args(t):
    return (t[0],) + tuple(canon(c) if isinstance(c, tuple) else c for c in t[1:])


def canon_idx(t):
    """canonicalise the index argument of every element selection (integer ring identities only; the
    floating-point structure of the term is left alone)"""
    if not isinstance(t, tuple) or not t:
        return t
    if t[0] in ('num', 'sym', 'bool', 'str', 'chr'):
        return t
    if t[0] == 'sel' and len(t) == 3:
        return ('sel', canon_idx(t[1]), canon(t[2]))
    return (t[0],) + tuple(canon_idx(c) if isinstance(c, tuple) else c for c in t[1:])


def same(a, b):
    """equal modulo ring identities"""
    return a == b or canon(a) == canon(b)


def diff(a, b):
    """a - b, simplified when the difference collapses (e.g. (i+1)*n - i*n = n); otherwise the plain
    subtraction term"""
    plain = sub(a, b)
    if not (isinstance(plain, tuple) and plain[0] == '-'):
        return plain
    try:
        p = _poly(plain)
    except RecursionError:
        return plain
    if len(p) == 0:
        return ZERO
    if len(p) == 1:
        (m, c), = p.items()
        if len(m) == 0:
            return ('num', c)
        if len(m) == 1 and c == 1:
            return m[0]
        if len(m) >= 1 and c > 0 and c.denominator == 1:
            t = None
            for a in m:
                t = a if t is None else ('*', t, a)
            return t if c == 1 else ('*', ('num', c), t)
    return plain


def size(v):
    if isinstance(v, tuple):
        k = v[0]
        if v in SIZES:
            return SIZES[v]
        if k == 'vzeros':
            return v[1]
        if k == 'vfill':
            return v[1]
        if k == 'vupd':
            return size(v[1])
        if k == 'vpush':
            return add(size(v[1]), ONE)
        if k == 'vmap':
            return size(v[1])
        if k == 'vlist':
            return num(len(v) - 1)
        if k == 'vcomp':
            # ('vcomp', v0, k, lo, hi, guard, x); x = ('tuple', a, b, ..) for several pushes per step
            per = num(len(v[6]) - 1) if isinstance(v[6], tuple) and v[6] and v[6][0] == 'tuple' else ONE
            if v[5] == TRUE:
                return add(size(v[1]), mul(per, sub(v[4], v[3])))
            return add(size(v[1]), ('count', v[2], v[3], v[4], v[5]))
        if k == 'vcomp2':
            # ('vcomp2', v0, i, lo, hi, k2, lo2, hi2, guard, x)
            per = num(len(v[9]) - 1) if isinstance(v[9], tuple) and v[9] and v[9][0] == 'tuple' else ONE
            if v[8] == TRUE:
                inner = mul(per, sub(v[7], v[6]))
                if not occurs(inner, v[2]):
                    return add(size(v[1]), mul(inner, sub(v[4], v[3])))
                return add(size(v[1]), ('sum', v[2], v[3], v[4], inner))
        if k == 'vresize':
            return v[2]
        if k == 'verase':
            return sub(size(v[1]), sub(v[3], v[2]))
        if k == 'vslice':
            return diff(v[3], v[2])
        if k == 'ite':
            return ite(v[1], size(v[2]), size(v[3]))
        if k == 'vpsum':
            return diff(v[3], v[2])
        if k in ('vscatter', 'vaccum', 'allreduce', 'vcopy'):
            return size(v[1])
        if k == 'alg' and len(v) > 3:
            return size(v[3])
    return ('size', v)


def sel(v, i):
    if isinstance(v, tuple):
        k = v[0]
        if k == 'vzeros':
            return ZERO
        if k == 'vfill':
            return v[2]
        if k == 'vupd':
            if v[2] == i:
                return v[3]
            if is_num(v[2]) and is_num(i):
                return sel(v[1], i)
            return ite(cmp('==', i, v[2]), v[3], sel(v[1], i))
        if k == 'vlist':
            if is_num(i) and 0 <= int(i[1]) < len(v) - 1:
                return v[1 + int(i[1])]
        if k == 'vmap':
            # ('vmap', v0, k, lo, hi, body)
            _, v0, kk, lo, hi, body = v
            val = subst(body, {kk: i})
            if lo == ZERO and hi == size(v0):
                return val
            if RANGES.get(i) == (lo, hi):
                return val
            return ite(land(cmp('<=', lo, i), cmp('<', i, hi)), val, sel(v0, i))
        if k == 'vpush':
            if i == size(v[1]):
                return v[2]
            if is_num(i) and is_num(size(v[1])):
                return sel(v[1], i)
        if k == 'vslice':
            return sel(v[1], add(v[2], i))
        if k == 'vcomp' and len(v) == 7 and v[5] == TRUE and \
                not (isinstance(v[6], tuple) and v[6] and v[6][0] == 'tuple'):
            # ('vcomp', v0, k, lo, hi, TRUE, x): v0 followed by x(lo), x(lo+1), ... (one element per step)
            n0_ = size(v[1])
            if n0_ == ZERO:
                return subst(v[6], {v[2]: add(v[3], i)})
            if is_num(n0_) and is_num(i):
                if i[1] < n0_[1]:
                    return sel(v[1], i)
                return subst(v[6], {v[2]: add(v[3], sub(i, n0_))})
        if k == 'vcopy':
            # ('vcopy', dst, c, src, a, b): dst with [c, c + b - a) replaced by src[a .. b)
            inside = land(cmp('<=', v[2], i), cmp('<', i, add(v[2], diff(v[5], v[4]))))
            return ite(inside, sel(v[3], add(v[4], sub(i, v[2]))), sel(v[1], i))
        if k == 'ite':
            return ite(v[1], sel(v[2], i), sel(v[3], i))
    return ('sel', v, i)


def vupd(v, i, x):
    if isinstance(v, tuple) and v[0] == 'vupd' and v[2] == i:
        return vupd(v[1], i, x)
    if x == ('sel', v, i) or x == sel(v, i):
        return v
    return ('vupd', v, i, x)


# ---- generic traversal ---------------------------------------------------------------------

def subterms(t):
    stack = [t]
    while stack:
        x = stack.pop()
        yield x
        if isinstance(x, tuple) and x and x[0] not in ('lv', 'ref'):
            for c in x[1:]:
                if isinstance(c, tuple):
                    stack.append(c)


def contains(t, pred):
    for s in subterms(t):
        if pred(s):
            return True
    return False


def occurs(t, sub_):
    return contains(t, lambda s: s == sub_)


REBUILD = {
    '+': add, '-': sub, '*': mul, '/': div, 'neg': neg, 'idiv': idiv, 'imod': imod,
    'ite': ite, 'and': land, 'or': lor, 'not': lnot, 'sel': sel, 'fld': fld, 'size': size,
    'vupd': vupd,
}


def subst(t, mapping):
    """Replace every occurrence of the *terms* that are keys of mapping (bottom-up rebuild with
    the simplifying constructors)."""
    if not mapping:
        return t
    cache = {}

    def go(x):
        if not isinstance(x, tuple) or not x:
            return x
        if x in mapping:
            return mapping[x]
        r = cache.get(x)
        if r is not None:
            return r
        k = x[0]
        if k in ('num', 'sym', 'bool', 'str', 'chr', 'enum', 'lv', 'ref'):
            cache[x] = x
            return x
        if not isinstance(k, str):
            r = tuple(go(c) for c in x)
            cache[x] = r
            return r
        if k == 'obj':
            r = ('obj', x[1], go(x[2]) if x[2] is not None else None,
                 tuple((n, go(v)) for n, v in x[3]))
        else:
            kids = tuple(go(c) for c in x[1:])
            if k in REBUILD and len(kids) == REBUILD[k].__code__.co_argcount:
                r = REBUILD[k](*kids)
            elif k in ('<', '<=', '>', '>=', '==', '!='):
                r = cmp(k, *kids)
            else:
                r = (k,) + kids
        cache[x] = r
        return r
    return go(t)


def pretty(t, depth=0):
    if not isinstance(t, tuple):
        return str(t)
    if depth > 40:
        return '...'
    if len(t) == 0:
        return '()'
    k = t[0]
    if not isinstance(k, str):
        return '(%s)' % ', '.join(pretty(x, depth + 1) for x in t)
    p = lambda x: pretty(x, depth + 1)
    if k == 'num':
        f = t[1]
        return str(f.numerator) if f.denominator == 1 else '%s/%s' % (f.numerator, f.denominator)
    if k == 'sym':
        return str(t[1])
    if k == 'bool':
        return 'true' if t[1] else 'false'
    if k in ('str', 'chr'):
        return repr(t[1])
    if k == 'enum':
        return str(t[1])
    if k in ('+', '-', '*', '/', '<', '<=', '>', '>=', '==', '!='):
        return '(%s %s %s)' % (p(t[1]), k, p(t[2]))
    if k == 'and':
        return '(%s && %s)' % (p(t[1]), p(t[2]))
    if k == 'or':
        return '(%s || %s)' % (p(t[1]), p(t[2]))
    if k == 'not':
        return '!%s' % p(t[1])
    if k == 'neg':
        return '-%s' % p(t[1])
    if k == 'ite':
        return '(%s ? %s : %s)' % (p(t[1]), p(t[2]), p(t[3]))
    if k == 'fn':
        return '%s(%s)' % (t[1], ', '.join(p(x) for x in t[2:]))
    if k == 'sel':
        return '%s[%s]' % (p(t[1]), p(t[2]))
    if k == 'fld':
        return '%s.%s' % (p(t[1]), t[2])
    if k == 'size':
        return '|%s|' % p(t[1])
    if k == 'obj':
        return '%s{%s}' % (t[1] or 'obj', ', '.join('%s=%s' % (n, p(v)) for n, v in t[3])
                           + ((' | ' + p(t[2])) if t[2] is not None else ''))
    if k == 'sum':
        return 'Sum[%s=%s..%s)(%s)' % (p(t[1]), p(t[2]), p(t[3]), p(t[4]))
    if k == 'prod':
        return 'Prod[%s=%s..%s)(%s)' % (p(t[1]), p(t[2]), p(t[3]), p(t[4]))
    if k == 'vmap':
        return 'map[%s=%s..%s)(%s <- %s)' % (p(t[2]), p(t[3]), p(t[4]), p(t[1]), p(t[5]))
    return '%s(%s)' % (k, ', '.join(p(x) if isinstance(x, tuple) else str(x) for x in t[1:]))


def offset_from(t, i):
    """c such that t == c + i with c independent of i (ring identities), or None"""
    try:
        p = _poly(('-', t, i))
    except RecursionError:
        return None
    for m in p:
        for a in m:
            if occurs(a, i):
                return None
    if any(c < 0 for c in p.values()):
        return None
    return _from_poly(p)
