"""Front end: runs clang on the instantiation driver, parses the filtered JSON AST dump, recovers
source locations, and builds the program model (records, functions, lowered bodies).

Nothing of hep-mc is compiled to an executable or run; clang is used with -fsyntax-only.
"""
import hashlib
import json
import os
import pickle
import re
import subprocess
import sys
import time

from . import ir

VERIF = os.path.dirname(os.path.dirname(os.path.abspath(__file__)))
DRIVER = os.path.join(VERIF, 'driver', 'instantiate.cpp')
CACHE = os.path.join(VERIF, '.cache')
MPI_INC = '/usr/lib/x86_64-linux-gnu/openmpi/include'
CACHE_VERSION = 24


class AnalysisBroken(Exception):
    """The analysis cannot decide: anchor vanished, unknown shape, coverage gate failed."""


def tree_hash(repo, extra=''):
    h = hashlib.sha256()
    inc = os.path.join(repo, 'include')
    for root, dirs, files in sorted(os.walk(inc)):
        dirs.sort()
        for f in sorted(files):
            p = os.path.join(root, f)
            h.update(p[len(inc):].encode())
            with open(p, 'rb') as fh:
                h.update(fh.read())
    with open(DRIVER, 'rb') as fh:
        h.update(fh.read())
    for f in sorted(os.listdir(os.path.join(VERIF, 'hepsa'))):
        if f in ('frontend.py', 'ir.py'):
            with open(os.path.join(VERIF, 'hepsa', f), 'rb') as fh:
                h.update(fh.read())
    h.update(extra.encode())
    h.update(str(CACHE_VERSION).encode())
    return h.hexdigest()[:24]


# other specialisations of a class template (told apart by the number of members)
CANON_ALTERNATIVES = {
    'hep::accumulator': [[('sums_', 'O'), ('non_zero_calls_', 'N'), ('finite_calls_', 'N')]],
}


def field_kind(t):
    """kind of a member type: N (unsigned integer), T (floating point), S (string), V<kind> (vector),
    the class name for hep:: classes (so that members of different class types are told apart when
    their declaration order changes), O for anything else (functors, engines, enums ...)"""
    t0 = (t or '')
    ptr = t0.strip().endswith('*')
    t = t0.replace('const ', '').strip(' &*')
    if t.startswith('std::vector<') and t.endswith('>'):
        return 'V<%s>' % field_kind(t[len('std::vector<'):-1])
    if t in ('unsigned long', 'std::size_t', 'size_t', 'unsigned int', 'unsigned long long'):
        return 'N'
    if t in ('double', 'float', 'long double'):
        return 'T'
    if 'basic_string' in t or t == 'std::string':
        return 'S'
    base = t.split('<')[0].replace('hep::', '')
    if base in ('distribution_parameters', 'distribution_result', 'mc_result', 'plain_result', 'vegas_pdf',
                'vegas_result', 'multi_channel_result', 'accumulator', 'mc_point', 'callback', 'callback_mode'):
        return base + ('*' if ptr else '')
    return 'O'


# data members as named in the tree the rules were written against: (name, kind of type), in
# declaration order
CANON_FIELDS = {
    'hep::integrand': [('function_', 'O'), ('parameters_', 'V<distribution_parameters>'), ('dimensions_', 'N')],
    'hep::accumulator': [('parameters_', 'V<distribution_parameters>'), ('indices_', 'V<N>'), ('sums_', 'V<T>'), ('compensations_', 'V<T>'),
                         ('non_zero_calls_', 'V<N>'), ('finite_calls_', 'V<N>')],
    'hep::mc_result': [('calls_', 'N'), ('non_zero_calls_', 'N'), ('finite_calls_', 'N'), ('sum_', 'T'),
                       ('sum_of_squares_', 'T')],
    'hep::plain_result': [('distributions_', 'V<distribution_result>')],
    'hep::vegas_result': [('pdf_', 'vegas_pdf'), ('adjustment_data_', 'V<T>')],
    'hep::multi_channel_result': [('adjustment_data_', 'V<T>'), ('channel_weights_', 'V<T>')],
    'hep::distribution_parameters': [('bins_x_', 'N'), ('bins_y_', 'N'), ('x_min_', 'T'), ('y_min_', 'T'),
                                     ('bin_size_x_', 'T'), ('bin_size_y_', 'T'), ('name_', 'S')],
    'hep::distribution_result': [('parameters_', 'distribution_parameters'), ('results_', 'V<mc_result>')],
    'hep::vegas_pdf': [('x', 'V<T>'), ('bins_', 'N'), ('dimensions_', 'N')],
    'hep::mc_point': [('weight_', 'T'), ('point_', 'V<T>')],
    'hep::vegas_point': [('bin_', 'V<N>')],
    'hep::multi_channel_point': [('channel_', 'N'), ('coordinates_', 'V<T>')],
    'hep::multi_channel_point2': [('densities_', 'V<T>'), ('channel_weights_', 'V<T>'), ('enabled_channels_', 'V<N>'),
                                  ('map_', 'O')],
    'hep::projector': [('accumulator_', 'accumulator*'), ('point_', 'mc_point')],
    'hep::chkpt': [('results_', 'V<O>')],
    'hep::vegas_chkpt': [('alpha_', 'T'), ('bins_', 'N'), ('pdf_', 'V<vegas_pdf>')],
    'hep::multi_channel_chkpt': [('beta_', 'T'), ('min_weight_', 'T'), ('first_channel_weights_', 'V<T>')],
    'hep::chkpt_with_rng': [('generators_', 'V<O>')],
    'hep::callback': [('mode_', 'callback_mode'), ('filename_', 'S'), ('target_rel_err_', 'T')],
    'hep::mpi_callback': [('callback_', 'callback')],
    'hep::multi_channel_weight_info': [('channels_', 'V<N>'), ('weights_', 'V<T>'), ('calls_', 'V<N>'),
                                       ('minimal_weight_count_', 'N')],
    'hep::discrete_distribution': [('weight_sums', 'V<T>')],
    'hep::multi_channel_integrand': [('map_', 'O'), ('map_dimensions_', 'N'), ('channels_', 'N')],
}


def build_flags(repo):
    """Flags of the real build: read from meson.build / compile_commands.json if present."""
    std = 'c++11'
    unsafe = []
    mb = os.path.join(repo, 'meson.build')
    texts = []
    if os.path.exists(mb):
        texts.append(open(mb).read())
        m = re.search(r'cpp_std\s*=\s*([a-z+0-9]+)', texts[-1])
        if m:
            std = m.group(1)
    for sub in ('tests/meson.build', 'examples/meson.build', 'include/meson.build'):
        p = os.path.join(repo, sub)
        if os.path.exists(p):
            texts.append(open(p).read())
    cc = os.path.join(repo, '_build', 'compile_commands.json')
    if os.path.exists(cc):
        try:
            texts.append(open(cc).read())
        except OSError:
            pass
    for t in texts:
        for flag in ('-ffast-math', '-Ofast', '-fassociative-math', '-funsafe-math-optimizations',
                     '-freciprocal-math', '-ffinite-math-only', '-fno-signed-zeros'):
            if flag in t and flag not in unsafe:
                unsafe.append(flag)
    return std, unsafe


def run_clang(repo, numeric='double', engine='std::mt19937', filt='hep::', extra_defs=()):
    std, _ = build_flags(repo)
    cmd = ['clang++', '-std=' + std, '-I' + os.path.join(repo, 'include'), '-I' + MPI_INC,
           '-fsyntax-only', '-Wno-everything', '-UNDEBUG',
           '-DVT=' + numeric, '-DVENGINE=' + engine]
    cmd += list(extra_defs)
    cmd += ['-Xclang', '-ast-dump=json', '-Xclang', '-ast-dump-filter=' + filt, DRIVER]
    p = subprocess.run(cmd, stdout=subprocess.PIPE, stderr=subprocess.PIPE)
    if p.returncode != 0:
        raise AnalysisBroken('clang failed on the instantiation driver (the tree does not '
                             'compile or the driver no longer matches the API):\n'
                             + p.stderr.decode(errors='replace')[-3000:])
    return p.stdout.decode(errors='replace')


def parse_concatenated(s):
    dec = json.JSONDecoder()
    i = 0
    n = len(s)
    out = []
    while i < n:
        j = s.find('{', i)
        if j < 0:
            break
        o, e = dec.raw_decode(s, j)
        out.append(o)
        i = e
    return out


class LocTracker:
    """clang's JSON dumper omits file/line when equal to the previously printed location."""

    def __init__(self):
        self.file = None
        self.line = None

    def visit_loc(self, d):
        # d is a source location dict (possibly with spellingLoc / expansionLoc)
        if 'spellingLoc' in d or 'expansionLoc' in d:
            res = None
            for k in ('spellingLoc', 'expansionLoc'):
                if k in d:
                    r = self.visit_loc(d[k])
                    if k == 'expansionLoc':
                        res = r
            return res
        if 'file' in d:
            self.file = d['file']
        if 'line' in d:
            self.line = d['line']
        if 'offset' not in d and 'col' not in d:
            return None
        return (self.file, self.line, d.get('col'))

    def annotate(self, node):
        if not isinstance(node, dict):
            return
        loc = None
        if 'loc' in node and isinstance(node['loc'], dict):
            loc = self.visit_loc(node['loc'])
        if 'range' in node and isinstance(node['range'], dict):
            b = self.visit_loc(node['range'].get('begin', {}))
            e = self.visit_loc(node['range'].get('end', {}))
            node['_b'] = b
            node['_e'] = e
            if loc is None:
                loc = b
        node['_loc'] = loc
        for c in node.get('inner', ()):
            self.annotate(c)


def norm_type(t, numeric, engine_desugared=None):
    if t is None:
        return None
    t = t.replace('verif_driver::T', numeric).replace('verif_hep::T', numeric)
    return t


class Record:
    def __init__(self):
        self.id = None
        self.name = None
        self.qualname = None
        self.targs = []
        self.fields = []      # list of dict(id,name,type,mutable)
        self.bases = []       # list of type strings
        self.methods = []     # Func
        self.is_pattern = False
        self.loc = None
        self.explicit_inst = False

    def __repr__(self):
        return '<Record %s>' % self.qualname


class Func:
    def __init__(self):
        self.id = None
        self.name = None
        self.qualname = None
        self.kind = None       # function | method | ctor | dtor
        self.params = []       # list of ir.Param
        self.body = None       # ir.N block
        self.inits = []        # ctor initialisers: (kind, name/type, expr)
        self.record = None
        self.targs = []
        self.is_pattern = False
        self.is_implicit = False
        self.is_const = False
        self.is_virtual = False
        self.is_static = False
        self.is_defaulted = False
        self.type = None
        self.ret_type = None
        self.loc = None
        self.end_line = None
        self.raw = None
        self.lambdas = []

    @property
    def file(self):
        return self.loc[0] if self.loc else None

    @property
    def line(self):
        return self.loc[1] if self.loc else None

    def where(self):
        if not self.loc:
            return '?'
        return '%s:%s' % (short(self.loc[0]), self.loc[1])

    def __repr__(self):
        return '<Func %s @%s>' % (self.qualname, self.where())


def short(path):
    if path is None:
        return '?'
    i = path.find('include/hep/')
    return path[i:] if i >= 0 else path


def targ_string(node, numeric):
    out = []
    for c in node.get('inner', ()):
        if c.get('kind') == 'TemplateArgument':
            if 'type' in c:
                out.append(norm_type(c['type'].get('qualType'), numeric))
            elif 'value' in c:
                out.append(str(c['value']))
            else:
                # template template argument or pack: recover from children
                sub = [x for x in c.get('inner', ()) if isinstance(x, dict)]
                if sub and sub[0].get('kind') == 'TemplateArgument':
                    out.append('<pack:%d>' % len(sub))
                else:
                    out.append('<tmpl>')
    return out


class Program:
    def __init__(self, repo, numeric, engine):
        self.repo = repo
        self.numeric = numeric
        self.engine = engine
        self.funcs = {}          # id -> Func  (all with or without body)
        self.records = {}        # id -> Record
        self.by_name = {}        # base qualname (no targs) -> [Func]
        self.patterns = []       # Func patterns (is_pattern) for the coverage gate
        self.probes = {}         # decl id -> symbolic name (from namespace verif_hep)
        self.probe_names = {}    # probe var name -> decl id
        self.enums = {}
        self.hep_ids = set()
        self.field_owner = {}    # field id -> Record
        self.unknown_kinds = {}
        self.headers = set()
        self.stats = {}
        self.unsafe_flags = []
        self.std = None
        self.goto_sites = []
        self.engine_desugared = None
        self._rec_by_key = None
        self.globals = []

    # ----- lookup helpers -------------------------------------------------------------------
    def find(self, base, inst=True, body=True):
        """All functions whose qualified name *without template arguments* equals base."""
        out = []
        for f in self.by_name.get(base, ()):
            if inst and f.is_pattern:
                continue
            if body and f.body is None:
                continue
            out.append(f)
        return out

    def one(self, base, pred=None):
        fs = self.find(base)
        if pred:
            fs = [f for f in fs if pred(f)]
        if not fs:
            raise AnalysisBroken('anchor vanished: no instantiated body of %s' % base)
        return fs[0]

    def canon(self, t):
        """Canonical key of a type string (resolution of constructor calls only)."""
        if t is None:
            return None
        t = ir.strip_cvref(t)
        if self.engine_desugared:
            t = t.replace(self.engine_desugared, 'ENGINE')
        t = t.replace('verif_driver::E', 'ENGINE').replace('verif_hep::E', 'ENGINE')
        t = t.replace('hep::', '').replace('std::', '')
        t = re.sub(r'\btrue\b', '1', t)
        t = re.sub(r'\bfalse\b', '0', t)
        t = t.replace('size_t', 'unsigned long')
        t = re.sub(r'\bplain_chkpt<([^<>]*)>', r'chkpt<plain_result<\1>>', t)
        t = re.sub(r'\bplain_chkpt_with_rng<ENGINE, ([^<>]*)>', r'chkpt_with_rng<ENGINE, chkpt<plain_result<\1>>>', t)
        t = re.sub(r'\b(vegas|multi_channel)_chkpt_with_rng<ENGINE, ([^<>]*)>', r'chkpt_with_rng<ENGINE, \1_chkpt<\2>>', t)
        return re.sub(r'\s+', '', t)

    def record_of_type(self, t):
        if not hasattr(self, '_rec_by_key') or self._rec_by_key is None:
            self._rec_by_key = {}
            for r in self.records.values():
                if not r.is_pattern:
                    k = self.canon(r.qualname)
                    old = self._rec_by_key.get(k)
                    if old is None or len(r.methods) > len(old.methods):
                        self._rec_by_key[k] = r
        r = self._rec_by_key.get(self.canon(t))
        if r is None:
            base = strip_targs(ir.strip_cvref(t) or '')
            c = [x for x in self.records.values() if not x.is_pattern
                 and strip_targs(x.qualname) == base and x.methods]
            if len(c) == 1:
                r = c[0]
        return r

    def ctor_for(self, rec, ctype, nargs):
        cands = [m for m in rec.methods if m.kind == 'ctor' and not m.is_pattern]
        key = self.canon(ctype)
        exact = [m for m in cands if self.canon(m.type) == key]
        if len(exact) >= 1:
            withbody = [m for m in exact if m.body is not None]
            return (withbody or exact)[0]
        ar = [m for m in cands if m.body is not None and not m.is_implicit
              and len(m.params) == nargs]
        if len(ar) == 1:
            return ar[0]
        return None

    def func_by_id(self, i):
        return self.funcs.get(i)

    def is_hep(self, declid):
        return declid in self.hep_ids


def strip_targs(q):
    out = []
    depth = 0
    for ch in q:
        if ch == '<':
            depth += 1
        elif ch == '>':
            depth -= 1
        elif depth == 0:
            out.append(ch)
    return ''.join(out)


FUNC_KINDS = ('FunctionDecl', 'CXXMethodDecl', 'CXXConstructorDecl', 'CXXDestructorDecl',
              'CXXConversionDecl')


class Builder:
    def __init__(self, prog, accept_all=False):
        self.p = prog
        self.numeric = prog.numeric
        self.accept_all = accept_all

    def build(self, objs):
        # pass 1: collect declarations
        for o in objs:
            self.top(o)
        self.fix_template_template_args()
        self.propagate_virtual()
        self.canonical_fields()
        # pass 2: lower bodies (needs hep id set for callee classification)
        low = ir.Lowerer(self.p)
        for f in list(self.p.funcs.values()):
            if f.raw is None or f.is_pattern:
                continue
            low.lower_func(f)
        for f in self.p.funcs.values():
            f.raw = None
        self.p.unknown_kinds = low.unknown
        self.p.goto_sites = low.goto_sites

    def canonical_fields(self):
        """The rules name data members by the names they have in the tree the rules were written
        against.  A private member that was merely renamed (same position / same kind of type) is
        mapped back to that name, so that a rename alone neither hides a member from a rule nor
        raises an alarm; every alias is recorded in prog.field_alias and listed in the evidence."""
        self.p.field_alias = {}
        self.p.field_alias_notes = []
        for r in self.p.records.values():
            base = strip_targs(r.qualname or '')
            canon = CANON_FIELDS.get(base)
            if canon is None or not r.fields:
                continue
            alts = CANON_ALTERNATIVES.get(base)
            if alts and len(r.fields) != len(canon):
                # another specialisation of the class template with its own members
                canon = ([a for a in alts if len(a) == len(r.fields)] or [canon])[0]
            have = [f['name'] for f in r.fields]
            cn = [c[0] for c in canon]
            if set(have) == set(cn):
                continue
            uf = [f for f in r.fields if f['name'] not in cn]
            uc = [c for c in canon if c[0] not in have]
            if len(uf) != len(uc) or len(r.fields) != len(canon):
                continue
            pairs = None
            # first the public accessors: `channels()` returns the member known as channels_, whatever it is called
            # now and wherever it is declared (accessor names are part of the public interface)
            fixed = []
            for c in list(uc):
                gname = c[0].rstrip('_')
                for m in r.methods:
                    if m.name != gname or m.params or m.raw is None:
                        continue
                    refs = set()
                    stack = [m.raw]
                    while stack:
                        x = stack.pop()
                        if isinstance(x, dict):
                            if x.get('kind') == 'MemberExpr' and x.get('referencedMemberDecl'):
                                refs.add(x['referencedMemberDecl'])
                            stack.extend(x.get('inner') or [])
                    hit = [f for f in uf if f['id'] in refs]
                    if len(refs) == 1 and len(hit) == 1:
                        fixed.append((hit[0], c))
                        uf = [f for f in uf if f is not hit[0]]
                        uc = [c_ for c_ in uc if c_ is not c]
                    break
            kf = [field_kind(f['type']) for f in uf]
            kc = [c[1] for c in uc]
            def km(k_, c_):
                return k_ == c_ or c_ == 'O' or (c_ == 'V<O>' and k_.startswith('V<'))
            cand = [[j for j, c_ in enumerate(kc) if km(k_, c_)] for k_ in kf]
            if all(len(x) == 1 for x in cand) and len(set(x[0] for x in cand)) == len(kf):
                # every renamed member matches exactly one reference member by kind (order-independent)
                pairs = [(f, uc[x[0]]) for f, x in zip(uf, cand)]
            elif all(km(a_, b_) for a_, b_ in zip(kf, kc)):
                pairs = list(zip(uf, uc))
            if not uf:
                pairs = []
            if pairs is None:
                continue
            pairs = fixed + list(pairs)
            for f, c in pairs:
                self.p.field_alias[f['id']] = c[0]
                if not r.is_pattern:
                    note = '%s::%s is treated as the member known as %s' % (base, f['name'], c[0])
                    if note not in self.p.field_alias_notes:
                        self.p.field_alias_notes.append(note)
                f['orig_name'] = f['name']
                f['name'] = c[0]

    def propagate_virtual(self):
        """`override` without the `virtual` keyword: a method is virtual if a method of the same
        name in a (transitive) base class is."""
        def all_bases(r, seen):
            for b in r.bases:
                br = self.p.record_of_type(b)
                if br is not None and br.id not in seen:
                    seen.add(br.id)
                    yield br
                    for x in all_bases(br, seen):
                        yield x
        for r in self.p.records.values():
            if r.is_pattern:
                continue
            vnames = set()
            for br in all_bases(r, set()):
                vnames |= set(m.name for m in br.methods if m.is_virtual and m.kind == 'method')
            for m in r.methods:
                if m.kind == 'method' and m.name in vnames:
                    m.is_virtual = True

    def fix_template_template_args(self):
        """Template template arguments are not printed by the JSON dumper: recover the class
        template names from the Itanium mangling (<length><identifier>)."""
        pats = [r for r in self.p.records.values() if r.is_pattern and r.name]
        for f in self.p.funcs.values():
            if '<tmpl>' not in f.targs or not f.mangled:
                continue
            pos = []
            for r in pats:
                tag = 'NS_%d%sE' % (len(r.name), r.name)
                i = f.mangled.find(tag)
                if i >= 0:
                    pos.append((i, 'hep::' + r.name))
            pos.sort()
            names = [n for _, n in pos]
            k = 0
            old = list(f.targs)
            for idx, t in enumerate(f.targs):
                if t == '<tmpl>' and k < len(names):
                    f.targs[idx] = names[k]
                    k += 1
            if not f.is_pattern:
                f.qualname = f.qualname.replace('<' + ', '.join(old) + '>',
                                                '<' + ', '.join(f.targs) + '>')

    def top(self, o):
        kind = o.get('kind')
        name = o.get('name')
        loc = o.get('_loc')
        file = loc[0] if loc else None
        in_repo = bool(file) and file.startswith(os.path.join(self.p.repo, 'include'))
        in_driver = bool(file) and file == DRIVER
        if self.accept_all:
            self.decl(o, 'std', pattern=False)
            return
        if not (in_repo or in_driver):
            # e.g. std::hash<...> specialisations matching the filter by substring
            if kind not in ('ClassTemplateSpecializationDecl',):
                return
        if kind in FUNC_KINDS and 'parentDeclContextId' in o:
            # out-of-line definition of a member of a class template: a pattern
            parent = self.p.records.get(o['parentDeclContextId'])
            if parent is not None and parent.is_pattern:
                self.func(o, parent.qualname, parent, pattern=True)
                return
        if in_driver:
            self.probe(o)
            if kind == 'ClassTemplateSpecializationDecl':
                self.record(o, 'hep', pattern=False, explicit=True)
            return
        if kind == 'ClassTemplateSpecializationDecl':
            self.record(o, 'hep', pattern=False, explicit=True)
            return
        self.decl(o, 'hep', pattern=False)

    def probe(self, o):
        if o.get('kind') != 'VarDecl':
            return
        name = o.get('name')
        refs = []

        def walk(n):
            if isinstance(n, dict):
                if n.get('kind') == 'DeclRefExpr' and 'referencedDecl' in n:
                    refs.append(n['referencedDecl'])
                for c in n.get('inner', ()):
                    walk(c)
        walk(o)
        if len(refs) == 1:
            self.p.probes.setdefault(refs[0]['id'], []).append(name)
            self.p.probe_names[name] = refs[0]['id']
        if name == 'engine_probe':
            t = o.get('type', {})
            self.p.engine_desugared = (t.get('desugaredQualType') or t.get('qualType') or '')

    def decl(self, o, scope, pattern):
        kind = o.get('kind')
        if kind in ('ClassTemplateDecl',):
            for c in o.get('inner', ()):
                ck = c.get('kind')
                if ck == 'CXXRecordDecl':
                    self.record(c, scope, pattern=True)
                elif ck == 'ClassTemplateSpecializationDecl':
                    if 'inner' in c and any(x.get('kind') in FUNC_KINDS + ('FieldDecl',)
                                            for x in c.get('inner', ())):
                        self.record(c, scope, pattern=False)
        elif kind == 'ClassTemplatePartialSpecializationDecl':
            self.record(o, scope, pattern=True)
        elif kind == 'CXXRecordDecl':
            self.record(o, scope, pattern=pattern)
        elif kind == 'FunctionTemplateDecl':
            first = True
            for c in o.get('inner', ()):
                if c.get('kind') in FUNC_KINDS:
                    self.func(c, scope, None, pattern=(first or pattern))
                    first = False
        elif kind in FUNC_KINDS:
            self.func(o, scope, None, pattern=pattern)
        elif kind == 'EnumDecl':
            vals = [c.get('name') for c in o.get('inner', ()) if c.get('kind') == 'EnumConstantDecl']
            self.p.enums[scope + '::' + str(o.get('name'))] = vals
            for c in o.get('inner', ()):
                if c.get('kind') == 'EnumConstantDecl':
                    self.p.hep_ids.add(c.get('id'))
        elif kind == 'VarDecl':
            t = tyof(o) or ''
            self.p.globals.append({'name': scope + '::' + str(o.get('name')), 'type': t,
                                   'const': t.strip().startswith('const') or 'constexpr' in str(o.get('constexpr', '')) or bool(o.get('constexpr')),
                                   'loc': o.get('_loc')})
            self.p.hep_ids.add(o.get('id'))
        elif kind == 'NamespaceDecl':
            for c in o.get('inner', ()):
                self.decl(c, scope + '::' + str(o.get('name')), pattern)

    def record(self, o, scope, pattern, explicit=False):
        if 'inner' not in o:
            return
        r = Record()
        r.id = o.get('id')
        r.name = o.get('name')
        r.targs = targ_string(o, self.numeric)
        r.is_pattern = pattern
        r.explicit_inst = explicit
        r.loc = o.get('_loc')
        q = scope + '::' + str(r.name)
        if r.targs and not pattern:
            q += '<' + ', '.join(r.targs) + '>'
        r.qualname = q
        for b in o.get('bases', ()):
            r.bases.append(norm_type(b.get('type', {}).get('desugaredQualType')
                                     or b.get('type', {}).get('qualType'), self.numeric))
        if r.id in self.p.records and not pattern:
            # explicit instantiation and implicit listing of the same specialisation
            old = self.p.records[r.id]
            if old.methods and any(m.raw is not None or m.body is not None for m in old.methods):
                pass
        self.p.records[r.id] = r
        self.p.hep_ids.add(r.id)
        for c in o.get('inner', ()):
            ck = c.get('kind')
            if ck == 'FieldDecl':
                finit = [x for x in c.get('inner', ()) if isinstance(x, dict) and x.get('kind')
                         and not x['kind'].endswith('Comment')]
                r.fields.append({'id': c.get('id'), 'name': c.get('name'),
                                 'type': norm_type(tyof(c), self.numeric),
                                 'mutable': bool(c.get('mutable')),
                                 'init_raw': finit[0] if finit else None})
                self.p.hep_ids.add(c.get('id'))
                self.p.field_owner[c.get('id')] = r
            elif ck == 'VarDecl' and (c.get('constexpr') or 'const' in tyof(c)):
                # static constant member with an integer literal initialiser (`static constexpr std::size_t slot = 2;`)
                leaves = []
                stack = [x for x in c.get('inner', ()) if isinstance(x, dict)]
                while stack:
                    x = stack.pop()
                    kids = [y for y in x.get('inner', ()) if isinstance(y, dict)]
                    if kids:
                        stack.extend(kids)
                    else:
                        leaves.append(x)
                if len(leaves) == 1 and leaves[0].get('kind') == 'IntegerLiteral' and leaves[0].get('value') is not None:
                    if not hasattr(self.p, 'static_consts'):
                        self.p.static_consts = {}
                    self.p.static_consts[c.get('id')] = int(leaves[0]['value'])
                else:
                    # any other constant expression (`static constexpr openmode mode = out | app;`): referenced
                    # uses are lowered as the initialiser expression itself
                    init = [x for x in c.get('inner', ()) if isinstance(x, dict) and x.get('kind')
                            and not x['kind'].endswith('Comment')]
                    if init:
                        if not hasattr(self.p, 'static_inits'):
                            self.p.static_inits = {}
                        self.p.static_inits[c.get('id')] = init[0]
            elif ck in FUNC_KINDS:
                self.func(c, q, r, pattern)
            elif ck == 'FunctionTemplateDecl':
                first = True
                for cc in c.get('inner', ()):
                    if cc.get('kind') in FUNC_KINDS:
                        self.func(cc, q, r, pattern=(first or pattern))
                        first = False
            elif ck == 'CXXRecordDecl' and not c.get('isImplicit') and 'inner' in c:
                self.record(c, q, pattern)
            elif ck == 'VarDecl':
                self.p.hep_ids.add(c.get('id'))

    def func(self, o, scope, rec, pattern):
        f = Func()
        f.id = o.get('id')
        f.name = o.get('name')
        kind = o.get('kind')
        f.kind = {'FunctionDecl': 'function', 'CXXMethodDecl': 'method',
                  'CXXConstructorDecl': 'ctor', 'CXXDestructorDecl': 'dtor',
                  'CXXConversionDecl': 'method'}[kind]
        f.record = rec
        f.is_pattern = pattern
        f.is_implicit = bool(o.get('isImplicit'))
        f.is_virtual = bool(o.get('virtual'))
        f.is_static = o.get('storageClass') == 'static'
        f.is_defaulted = bool(o.get('explicitlyDefaulted'))
        f.type = norm_type(o.get('type', {}).get('qualType'), self.numeric)
        f.is_const = bool(f.type) and re.search(r'\)\s*const', f.type) is not None
        f.targs = targ_string(o, self.numeric)
        f.mangled = o.get('mangledName')
        f.loc = o.get('_loc')
        e = o.get('_e')
        f.end_line = e[1] if e else None
        f.qualname = scope + '::' + str(f.name)
        if f.targs and not pattern:
            f.qualname += '<' + ', '.join(f.targs) + '>'
        has_body = any(c.get('kind') in ('CompoundStmt', 'CXXTryStmt') for c in o.get('inner', ()))
        f.raw = o if has_body else None
        f.body_loc = None
        for c in o.get('inner', ()):
            if c.get('kind') in ('CompoundStmt', 'CXXTryStmt'):
                f.body_loc = c.get('_b')
        f.has_body = has_body
        prev = self.p.funcs.get(f.id)
        if prev is not None and prev.has_body and not has_body:
            return
        self.p.funcs[f.id] = f
        self.p.hep_ids.add(f.id)
        if rec is not None:
            rec.methods.append(f)
        base = strip_targs(f.qualname)
        self.p.by_name.setdefault(base, []).append(f)
        if pattern and has_body:
            self.p.patterns.append(f)


def tyof(node):
    t = node.get('type')
    if not t:
        return None
    return t.get('desugaredQualType') or t.get('qualType')


def load(repo='/repo', numeric='double', engine='std::mt19937', use_cache=True):
    """Parse the current tree and return the Program. Always keyed by content hash."""
    t0 = time.time()
    repo = os.path.abspath(repo)
    key = tree_hash(repo, numeric + '|' + engine + '|' + repo)
    os.makedirs(CACHE, exist_ok=True)
    cp = os.path.join(CACHE, 'prog-%s.pkl' % key)
    if use_cache and os.path.exists(cp):
        try:
            with open(cp, 'rb') as fh:
                prog = pickle.load(fh)
            prog.stats['cache'] = 'hit'
            prog.stats['load_s'] = round(time.time() - t0, 2)
            return prog
        except Exception:
            pass
    text = run_clang(repo, numeric, engine)
    objs = parse_concatenated(text)
    lt = LocTracker()
    for o in objs:
        lt.annotate(o)
    prog = Program(repo, numeric, engine)
    prog.std, prog.unsafe_flags = build_flags(repo)
    sys.setrecursionlimit(20000)
    Builder(prog).build(objs)
    prog.stats = {
        'cache': 'miss',
        'dump_bytes': len(text),
        'top_level_decls': len(objs),
        'functions_with_body': sum(1 for f in prog.funcs.values() if f.body is not None),
        'records': len(prog.records),
        'load_s': round(time.time() - t0, 2),
    }
    coverage_gate(prog)
    try:
        # keep the cache small: drop older entries
        olds = sorted((os.path.getmtime(os.path.join(CACHE, f)), f) for f in os.listdir(CACHE)
                      if f.startswith('prog-'))
        for _, f in olds[:-40]:
            os.unlink(os.path.join(CACHE, f))
        with open(cp + '.tmp%d' % os.getpid(), 'wb') as fh:
            pickle.dump(prog, fh, protocol=pickle.HIGHEST_PROTOCOL)
        os.replace(cp + '.tmp%d' % os.getpid(), cp)
    except Exception:
        pass
    return prog


def load_aux(repo, filt, numeric='double', engine='std::mt19937'):
    """Auxiliary dump of library entities (e.g. the installed std::generate_canonical) from the
    same driver TU; a separate Program whose declaration ids are NOT comparable with load()'s."""
    repo = os.path.abspath(repo)
    key = tree_hash(repo, 'aux|' + filt + '|' + numeric + '|' + engine)
    cp = os.path.join(CACHE, 'aux-%s.pkl' % key)
    if os.path.exists(cp):
        try:
            with open(cp, 'rb') as fh:
                return pickle.load(fh)
        except Exception:
            pass
    text = run_clang(repo, numeric, engine, filt=filt)
    objs = parse_concatenated(text)
    lt = LocTracker()
    for o in objs:
        lt.annotate(o)
    prog = Program(repo, numeric, engine)
    sys.setrecursionlimit(20000)
    Builder(prog, accept_all=True).build(objs)
    try:
        with open(cp + '.tmp%d' % os.getpid(), 'wb') as fh:
            pickle.dump(prog, fh, protocol=pickle.HIGHEST_PROTOCOL)
        os.replace(cp + '.tmp%d' % os.getpid(), cp)
    except Exception:
        pass
    return prog


def coverage_gate(prog):
    """Every function defined in include/hep must have an instantiated body; every header must
    be reached; no goto / asm inside hep::."""
    problems = []
    inst_by_loc = {}
    for f in prog.funcs.values():
        if f.body is not None and not f.is_pattern and f.loc:
            inst_by_loc.setdefault((f.loc[0], f.loc[1]), []).append(f)
            if f.body_loc:
                inst_by_loc.setdefault(('body',) + tuple(f.body_loc[:2]), []).append(f)
    # non-template functions are their own instantiation
    for pat in prog.patterns:
        if not pat.loc:
            continue
        if pat.is_implicit or pat.is_defaulted:
            continue
        if (pat.loc[0], pat.loc[1]) not in inst_by_loc and \
                (not pat.body_loc or ('body',) + tuple(pat.body_loc[:2]) not in inst_by_loc):
            problems.append('no instantiated body for %s at %s (extend driver/instantiate.cpp)'
                            % (pat.qualname, pat.where()))
    incdir = os.path.join(prog.repo, 'include')
    seen = set()
    for f in prog.funcs.values():
        if f.loc and f.loc[0]:
            seen.add(f.loc[0])
    for r in prog.records.values():
        if r.loc and r.loc[0]:
            seen.add(r.loc[0])
    prog.headers = set(short(s) for s in seen if s.startswith(incdir))
    # headers: every .hpp below include/ must be in the include closure of the driver
    dep = subprocess.run(['clang++', '-std=' + (prog.std or 'c++11'), '-I' + incdir, '-I' + MPI_INC,
                          '-MM', '-MG', '-DVT=' + prog.numeric, '-DVENGINE=' + prog.engine, DRIVER],
                         stdout=subprocess.PIPE, stderr=subprocess.PIPE)
    closure = set(re.findall(r'(\S+\.hpp)', dep.stdout.decode()))
    closure = set(os.path.abspath(c) for c in closure)
    for root, _, files in os.walk(incdir):
        for fn in files:
            if fn.endswith('.hpp'):
                p = os.path.abspath(os.path.join(root, fn))
                if p not in closure:
                    problems.append('header %s is not reached by the instantiation driver' % p)
    for g in prog.goto_sites:
        problems.append('unsupported control flow (%s) at %s' % g)
    prog.stats['coverage_problems'] = problems
    prog.stats['patterns'] = len(prog.patterns)
    # Code the driver does not instantiate cannot be reached from the analysed entry points (a
    # template that is used is instantiated by its user), so it is reported, not fatal: every rule
    # has its own anchor gate for the functions it needs.
