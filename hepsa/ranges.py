"""Index-range obligations of checked element accesses (`.at(i)`, `.front()`, `.back()`).

The summariser (symex.SymEx(record_access=True)) emits one `access` effect per such call with the
size of the container, the index term and the path condition; enclosing counting loops give the
range of their index symbols.  The obligation `0 <= index < size` is a formula of linear integer
arithmetic over a few parameters (container sizes, positions returned by binary searches).  It is
decided here by evaluating the *extracted terms* (never the program) for every assignment of the
parameters up to a bound: a falsifying assignment is a definite counterexample, reported with its
values; no counterexample up to the bound is reported as a bounded result.  Anything that is not an
integer term over those parameters makes the obligation undecided (AnalysisBroken), never a pass."""
from fractions import Fraction
from itertools import product

from . import terms as T
from .frontend import AnalysisBroken

WRAP = 1 << 64
ARITH = ('+', '-', '*', 'idiv', 'imod', 'neg', '/')
BOOL = ('<', '<=', '>', '>=', '==', '!=', 'and', 'or', 'not', 'bool')


class Unknown(Exception):
    pass


def atoms_of(t, out, bound=()):
    """maximal subterms that are not interpreted integer / boolean operators"""
    if not isinstance(t, tuple) or not t:
        return
    k = t[0]
    if k == 'num' or k == 'bool':
        return
    if k in ARITH or k in BOOL or k == 'ite' or k == 'truth':
        for c in t[1:]:
            atoms_of(c, out, bound)
        return
    if k == 'sum' and len(t) == 5:
        atoms_of(t[2], out, bound)
        atoms_of(t[3], out, bound)
        atoms_of(t[4], out, bound + (t[1],))
        return
    if t in bound:
        return
    out.add(t)


def ceval(t, env):
    if not isinstance(t, tuple) or not t:
        raise Unknown(repr(t))
    k = t[0]
    if k == 'num':
        if t[1].denominator != 1:
            raise Unknown('fraction')
        return int(t[1])
    if k == 'bool':
        return bool(t[1])
    if t in env:
        return env[t]
    if k in ('+', '-', '*'):
        a, b = ceval(t[1], env), ceval(t[2], env)
        r = a + b if k == '+' else a - b if k == '-' else a * b
        if r < 0:
            r += WRAP         # unsigned arithmetic wraps
        if r >= WRAP:
            r -= WRAP
        return r
    if k in ('idiv', '/'):
        a, b = ceval(t[1], env), ceval(t[2], env)
        if b == 0:
            raise Unknown('division by zero')
        return a // b
    if k == 'imod':
        a, b = ceval(t[1], env), ceval(t[2], env)
        if b == 0:
            raise Unknown('division by zero')
        return a % b
    if k == 'neg':
        return (WRAP - ceval(t[1], env)) % WRAP
    if k in ('<', '<=', '>', '>=', '==', '!=') and isinstance(t[1], tuple) and isinstance(t[2], tuple) and \
            t[1][:1] == ('sel',) and t[2][:1] == ('sel',) and t[1][1] == t[2][1]:
        # two elements of the same container: the same element if the positions coincide; otherwise
        # the outcome is data (a free boolean, see check_accesses)
        def key(x):
            try:
                return ceval(x, env)
            except Unknown:
                if isinstance(x, tuple) and len(x) == 3 and x[0] == 'sel':
                    return ('sel', x[1], key(x[2]))
                raise
        i1, i2 = key(t[1][2]), key(t[2][2])
        if i1 == i2:
            return k in ('<=', '>=', '==')
        if ('free', t) in env:
            return env[('free', t)]
        raise Unknown(T.pretty(t)[:80])
    if k in ('<', '<=', '>', '>=', '==', '!='):
        a, b = ceval(t[1], env), ceval(t[2], env)
        return {'<': a < b, '<=': a <= b, '>': a > b, '>=': a >= b, '==': a == b, '!=': a != b}[k]
    if k == 'and':
        return bool(ceval(t[1], env)) and bool(ceval(t[2], env))
    if k == 'or':
        return bool(ceval(t[1], env)) or bool(ceval(t[2], env))
    if k == 'not':
        return not bool(ceval(t[1], env))
    if k == 'truth':
        v = ceval(t[1], env)
        return bool(v)
    if k == 'ite':
        return ceval(t[2], env) if ceval(t[1], env) else ceval(t[3], env)
    if k == 'sum' and len(t) == 5:
        lo, hi = ceval(t[2], env), ceval(t[3], env)
        if hi - lo > 4096:
            raise Unknown('long sum')
        s = 0
        for j in range(lo, hi):
            e2 = dict(env)
            e2[t[1]] = j
            s += ceval(t[4], e2)
        return s % WRAP
    raise Unknown(T.pretty(t)[:80])


def classify_atom(a):
    """'size' (a container size, >= 1 by the documented preconditions), 'pos' (position returned by
    a binary search: between the ends searched), 'idx' (loop index symbol) or None"""
    if a[0] == 'size':
        return 'size'
    if a[0] in ('upper_bound', 'lower_bound') and len(a) >= 5:
        return 'pos'
    if a[0] == 'sym' and '@L' in str(a[1]):
        return 'idx'
    return None


def is_permutation(v):
    """v is std::iota(0, 1, ...) over a whole vector, possibly sorted afterwards: its elements are
    exactly 0 .. |v|-1"""
    if isinstance(v, tuple) and v and v[0] == 'vmap' and len(v) == 6:
        # std::iota spelled as a loop: v[i] = i for every i in [0, |v|)
        return v[3] == T.ZERO and v[4] == T.size(v[1]) and v[5] == v[2]
    if not (isinstance(v, tuple) and v and v[0] == 'alg' and len(v) >= 4):
        return False
    if v[1] in ('stable_sort', 'sort', 'reverse'):
        return is_permutation(v[3])
    if v[1] == 'iota' and len(v) >= 7:
        b, e_, start = v[4], v[5], v[6]
        return start == T.ZERO and isinstance(b, tuple) and b[0] == 'iter' and b[2] == T.ZERO and \
            isinstance(e_, tuple) and e_[0] == 'iter' and e_[2] == T.size(v[3])
    return False


def check_accesses(accesses, bound=24, min_size=1):
    """accesses: list of (effect, enclosing loop effects).  Returns a list of dicts with keys
    verdict ('holds-bounded' | 'violation' | 'undecided'), where, detail, witness."""
    out = []
    for e, loops in accesses:
        terms = [e['index'], e['size']] + list(e['pc'])
        for l in loops:
            terms += [l['lo'], l['hi']] + list(l.get('pc', ()))
        ats = set()
        for t in terms:
            atoms_of(t, ats)
        # positions inside comparisons of two elements of one container are integer terms too
        for c in list(e['pc']) + [c2 for l in loops for c2 in l.get('pc', ())]:
            for t in T.subterms(c):
                if isinstance(t, tuple) and len(t) == 3 and t[0] in ('<', '<=', '>', '>=', '==', '!=') and \
                        isinstance(t[1], tuple) and isinstance(t[2], tuple) and t[1][:1] == ('sel',) and \
                        t[2][:1] == ('sel',) and t[1][1] == t[2][1]:
                    for ix in (t[1][2], t[2][2]):
                        while isinstance(ix, tuple) and len(ix) == 3 and ix[0] == 'sel':
                            ats.discard(ix)
                            ix = ix[2]
                        atoms_of(ix, ats)
                    ats.discard(t[1])
                    ats.discard(t[2])
        loop_syms = [l['idx'] for l in loops]
        params = []
        unknown = []
        for a in sorted(ats, key=repr):
            c = classify_atom(a)
            if a in loop_syms:
                continue
            if c in ('size', 'pos'):
                params.append((a, c))
            else:
                unknown.append(a)
        res = {'where': e['where'], 'how': e['how'], 'index': e['index'], 'size': e['size']}
        ix = e['index']
        if isinstance(ix, tuple) and ix and ix[0] == 'sel' and is_permutation(ix[1]) and T.size(ix[1]) == e['size']:
            res.update(verdict='holds-bounded', detail='the index is an element of a permutation of 0 .. size-1 '
                       '(std::iota over the whole vector, then sorted)')
            out.append(res)
            continue
        # atoms that are not integer parameters may only occur in path conditions (they are then
        # treated as possibly true); in the index or the size they make the obligation undecided
        core = set()
        atoms_of(e['index'], core)
        atoms_of(e['size'], core)
        for l in loops:
            atoms_of(l['lo'], core)
            atoms_of(l['hi'], core)
        bad_core = [a for a in core if a in unknown]
        if bad_core:
            res.update(verdict='undecided', detail='index / size / loop bound depends on %s'
                       % T.pretty(bad_core[0])[:120])
            out.append(res)
            continue
        sizes = [a for a, c in params if c == 'size']
        poss = [a for a, c in params if c == 'pos']
        if len(sizes) + len(poss) > 4:
            res.update(verdict='undecided', detail='too many parameters (%d)' % len(params))
            out.append(res)
            continue
        cex = None
        assumed = False
        nchecked = 0
        # comparisons of container elements in the path conditions are data: both outcomes are
        # explored (except where the two positions coincide, which ceval decides)
        free_atoms = []
        for c in list(e['pc']) + [c2 for l in loops for c2 in l.get('pc', ())]:
            for t in T.subterms(c):
                if isinstance(t, tuple) and len(t) == 3 and t[0] in ('<', '<=', '>', '>=', '==', '!=') and \
                        isinstance(t[1], tuple) and isinstance(t[2], tuple) and t[1][:1] == ('sel',) and \
                        t[2][:1] == ('sel',) and t[1][1] == t[2][1] and t not in free_atoms:
                    free_atoms.append(t)
        if len(free_atoms) > 3:
            free_atoms = free_atoms[:3]
        try:
            for svals in product(range(min_size, bound + 1), repeat=len(sizes)):
              for fvals in product((True, False), repeat=len(free_atoms)):
                env0 = dict(zip(sizes, svals))
                env0.update({('free', a_): v_ for a_, v_ in zip(free_atoms, fvals)})
                # positions: between the ends of the searched range
                pranges = []
                for a in poss:
                    lo = ceval(a[2], env0) if isinstance(a[2], tuple) else 0
                    hi = ceval(a[3], env0) if isinstance(a[3], tuple) else bound
                    pranges.append(range(lo, min(hi, bound) + 1))
                for pvals in product(*pranges):
                    env1 = dict(env0)
                    env1.update(zip(poss, pvals))

                    def rec(depth, env):
                        nonlocal cex, assumed, nchecked
                        if cex is not None:
                            return
                        if depth == len(loops):
                            ok_pc = True
                            for c in e['pc']:
                                try:
                                    if not ceval(c, env):
                                        ok_pc = False
                                        break
                                except Unknown:
                                    assumed = True
                            if not ok_pc:
                                return
                            nchecked += 1
                            idx, sz = ceval(e['index'], env), ceval(e['size'], env)
                            if not (0 <= idx < sz):
                                cex = dict(env)
                                cex['__index__'] = idx
                                cex['__size__'] = sz
                            return
                        l = loops[depth]
                        okl = True
                        for c in l.get('pc', ()):
                            try:
                                if not ceval(c, env):
                                    okl = False
                                    break
                            except Unknown:
                                assumed = True
                        if not okl:
                            return
                        lo, hi = ceval(l['lo'], env), ceval(l['hi'], env)
                        if hi - lo > 4 * bound:
                            raise Unknown('loop with %d iterations' % (hi - lo))
                        for j in range(lo, hi):
                            e2 = dict(env)
                            e2[l['idx']] = j
                            rec(depth + 1, e2)
                            if cex is not None:
                                return
                    rec(0, env1)
                    if cex is not None:
                        break
                if cex is not None:
                    break
              if cex is not None:
                  break
        except Unknown as u:
            res.update(verdict='undecided', detail='cannot evaluate: %s' % u)
            out.append(res)
            continue
        if cex is not None:
            wit = {}
            for k_, v in cex.items():
                if isinstance(k_, tuple) and k_ and k_[0] == 'free':
                    wit['assuming ' + T.pretty(k_[1])[:100]] = bool(v)
                elif isinstance(v, bool):
                    wit[T.pretty(k_)[:80] if isinstance(k_, tuple) else k_] = v
                else:
                    wit[T.pretty(k_)[:80] if isinstance(k_, tuple) else k_] = (v if v < WRAP // 2 else v - WRAP)
            if assumed:
                res.update(verdict='undecided', detail='index %s out of [0, %s) under a path condition that is '
                           'not an integer formula' % (wit.get('__index__'), wit.get('__size__')), witness=wit)
            else:
                res.update(verdict='violation', detail='index %s is outside [0, %s)'
                           % (wit.get('__index__'), wit.get('__size__')), witness=wit)
        else:
            res.update(verdict='holds-bounded', detail='0 <= index < size for every parameter value up to %d '
                       '(%d reachable evaluations)' % (bound, nchecked))
        out.append(res)
    return out


def prefix_subst(loops):
    """placeholders of sum reductions -> their closed form at the current iteration:
    pre = init + Sum_{k = lo}^{i-1} body(k)"""
    m = {}
    for ls in loops:
        if ls.lo is None or ls.idx is None:
            continue
        for info in ls.updates.values():
            if info.get('kind') == 'sum' and 'body' in info:
                kk = T.sym('%s<%s' % (ls.idx[1], info['label']))
                bk = T.subst(info['body'], {ls.idx: kk})
                if not T.occurs(bk, kk):
                    m[info['pre']] = T.add(info['init'], T.mul(bk, T.sub(ls.idx, ls.lo)))
                else:
                    m[info['pre']] = T.add(info['init'], ('sum', kk, ls.lo, ls.idx, bk))
    # the init of an inner reduction may itself be a placeholder of an outer loop
    for _ in range(3):
        m = {k: T.subst(v, m) for k, v in m.items()}
    return m
