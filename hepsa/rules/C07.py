"""C07 - the VEGAS grid stays a valid partition and refinement equidistributes importance."""
import os
import sys
from fractions import Fraction

from .. import terms as T
from .. import fpclass as fp
from ..terms import sym, add, mul, sub, div, ZERO, ONE, fld, sel, ite, num
from .common import *

sys.path.insert(0, os.path.dirname(os.path.dirname(os.path.dirname(os.path.abspath(__file__)))))
from spec import formulas as F   # noqa


class Iv:
    """interval over the reals with open/closed ends; ends are multiples of the symbol `bins`
    (coefficient, closed)"""
    def __init__(self, lo, lo_closed, hi, hi_closed, scale=False):
        self.lo, self.lc, self.hi, self.hc, self.scale = lo, lo_closed, hi, hi_closed, scale

    def __repr__(self):
        u = '*bins' if self.scale else ''
        return '%s%s%s, %s%s%s' % ('[' if self.lc else '(', self.lo, u, self.hi, u, ']' if self.hc else ')')


def iv_eval(t, u, ubox, bins):
    """interval of term t; u is the canonical number with interval ubox"""
    if t == u:
        return ubox
    if T.is_num(t):
        return Iv(t[1], True, t[1], True)
    if isinstance(t, tuple) and t[0] == 'ite':
        c = t[1]
        if isinstance(c, tuple) and c[0] == '==' and c[2] == u and T.is_num(c[1]):
            c = ('==', c[2], c[1])
        if isinstance(c, tuple) and c[0] == '!=' and (c[1] == u or c[2] == u):
            # u != k ? a : b  ==  u == k ? b : a
            c = ('==', c[1], c[2]) if c[1] == u else ('==', c[2], c[1])
            t = ('ite', c, t[3], t[2])
        if isinstance(c, tuple) and c[0] == '==' and c[1] == u and T.is_num(c[2]):
            k = c[2][1]
            a = iv_eval(t[2], u, Iv(k, True, k, True), bins) if ubox.lo <= k <= ubox.hi else None
            # else branch: u != k: open the end if k is an end point
            lo, lc, hi, hc = ubox.lo, ubox.lc, ubox.hi, ubox.hc
            if k == hi:
                hc = False
            if k == lo:
                lc = False
            b = iv_eval(t[3], u, Iv(lo, lc, hi, hc), bins)
            if a is None:
                return b
            return iv_join(a, b)
        raise AnalysisBroken('unrecognised guard on the canonical number: %s' % T.pretty(c)[:200])
    if isinstance(t, tuple) and t[0] == 'fn' and t[1] in ('nexttoward', 'nextafter'):
        x = iv_eval(t[2], u, ubox, bins)
        y = iv_eval(t[3], u, ubox, bins)
        if x.lo == x.hi and y.lo == y.hi and not x.scale and not y.scale:
            if y.lo < x.lo:
                return Iv(y.lo, False, x.lo, False)   # strictly between: one ulp towards y
            if y.lo > x.lo:
                return Iv(x.lo, False, y.lo, False)
            return x
        raise AnalysisBroken('nexttoward on a non-degenerate interval')
    if isinstance(t, tuple) and t[0] == '*':
        a, b = t[1], t[2]
        if b == bins:
            x = iv_eval(a, u, ubox, bins)
        elif a == bins:
            x = iv_eval(b, u, ubox, bins)
        else:
            raise AnalysisBroken('product is not (canonical number) * bins')
        if x.scale:
            raise AnalysisBroken('bins * bins')
        return Iv(x.lo, x.lc, x.hi, x.hc, scale=True)
    raise AnalysisBroken('cannot bound %s' % T.pretty(t)[:200])


def iv_join(a, b):
    lo, lc = (a.lo, a.lc) if (a.lo < b.lo or (a.lo == b.lo and a.lc)) else (b.lo, b.lc)
    hi, hc = (a.hi, a.hc) if (a.hi > b.hi or (a.hi == b.hi and a.hc)) else (b.hi, b.hc)
    return Iv(lo, lc, hi, hc, a.scale or b.scale)


def rn_pre(ls, f):
    u = upd_by_loc(ls, ('lv', f.params[1].id, ()))
    if u is None:
        raise AnalysisBroken('vegas_icdf does not write its random-number argument')
    return u['pre']


def _ieee_exact(t):
    """simplify with identities that hold exactly in IEEE arithmetic for finite non-zero operands"""
    if not isinstance(t, tuple) or not t or t[0] in ('num', 'sym'):
        return t
    if t[0] in ('+', '-', '*', '/') and len(t) == 3:
        a, b = _ieee_exact(t[1]), _ieee_exact(t[2])
        if t[0] == '/':
            if a == b:
                return ONE
            if a == ZERO:
                return ZERO
            return div(a, b)
        if t[0] == '*':
            if a == ZERO or b == ZERO:
                return ZERO
            return mul(a, b)
        if t[0] == '+':
            return add(a, b)
        if a == b:
            return ZERO
        return sub(a, b)
    return t


def _same_data(v, D):
    """v is the raw data slice D of the current dimension"""
    if v == D:
        return True
    from .. import algebra
    return isinstance(v, tuple) and v and v[0] == 'vslice' and v[1] == D[1] and \
        algebra.equal(v[2], D[2])[0] and algebra.equal(v[3], D[3])[0]


def check(ctx):
    p = ctx.prog
    no_use_after_move(ctx, 'move.no_use_after_move', ['hep::vegas_refine_pdf', 'hep::vegas_chkpt::pdf', 'hep::vegas_chkpt::dimensions'])
    # all arithmetic behind this property happens in the numeric type T of the instantiation
    single_precision(ctx, 'prec.single_type', ['hep::vegas_pdf::', 'hep::vegas_icdf', 'hep::vegas_refine_pdf', 'hep::vegas_chkpt::'], 1)
    # no constructor of the classes this property computes with leaves a member indeterminate
    members_initialised(ctx, 'init.members', ['hep::vegas_pdf'], 2)
    ctx.assume('canonical random numbers lie in the closed interval [0,1] (the defensive assumption '
               'the code itself makes); bins >= 2; real arithmetic: u <= 1-eps implies u*bins < bins')
    # ---------------------------------------------------------------- R1 vegas_icdf index range
    f = p.one('hep::vegas_icdf')
    ctx.analysed(f)
    PDF = sym('pdf')
    bins = fld(PDF, 'bins_')

    def r1():
        s, ex = summarise(p, f)
        where = fsite(f)
        convs = [(e, l) for e, l in flat_effects(s.effects) if e['kind'] == 'conv']
        if len(convs) != 1 or len(convs[0][1]) != 1:
            raise AnalysisBroken('expected one float->integer conversion inside the per-dimension loop')
        e, loops = convs[0]
        ls = s.loops[loops[0]['loop']]
        i = ls.idx
        u = sel(rn_pre(ls, f), i)
        box = iv_eval(e['operand'], u, Iv(Fraction(0), True, Fraction(1), True), bins)
        w = '%s:vegas_icdf' % e['where']
        if box.scale and box.lo >= 0 and (box.hi < 1 or (box.hi == 1 and not box.hc)):
            ctx.holds('R1.index_in_range', w, 'u in [0,1] -> after the guard [0,1) -> u*bins in %s: the '
                      'bin index is in [0, bins-1] and index+1 <= bins' % box)
        else:
            ctx.violation('R1.index_in_range', w, 'the bin index can reach `bins`: for u == 1 the '
                          'position u*bins is %s, so bin_left(i, index+1) reads past the row and the '
                          'stored bin index is out of range' % box,
                          {'operand': T.pretty(e['operand'])[:400], 'interval': repr(box),
                           'abstract_counterexample': 'canonical number exactly 1 (float generate_canonical can return it)'})
        # reads: bin_left(i, index) and bin_left(i, index + 1) of row i
        idx = ('trunc', e['operand'])
        row = mul(i, add(bins, ONE))
        xs = fld(PDF, 'x')
        want_reads = {sel(xs, add(row, idx)), sel(xs, add(row, add(idx, ONE)))}
        rn = upd_by_loc(ls, ('lv', f.params[1].id, ()))
        if rn is None:
            raise AnalysisBroken('coordinate update not found in vegas_icdf')
        got = set()
        for u_ in ls.updates.values():
            for t in T.subterms(u_['next']):
                if isinstance(t, tuple) and t and t[0] == 'sel' and t[1] == xs:
                    got.add(t)
        if set(T.canon(t) for t in got) == set(T.canon(t) for t in want_reads):
            ctx.holds('R1.reads', where, 'only boundaries `index` and `index+1` of row i are read')
        else:
            ctx.violation('R1.reads', where, 'grid boundaries other than index / index+1 of the row are read',
                          {'reads': sorted(T.pretty(t)[:200] for t in got)})
        # a bin of zero width (two equal neighbouring boundaries, which a long adaptation produces and a valid
        # grid may contain) must yield exactly its boundary: `left + p*(right - left)` does (p*0 = 0, x + 0 = x are
        # exact in IEEE arithmetic), `(1-p)*left + p*right` rounds twice and leaves the bin it reports
        if rn['kind'] == 'map':
            left_, right_ = sel(xs, add(row, idx)), sel(xs, add(row, add(idx, ONE)))
            cmap = {}
            for t in T.subterms(rn['body']):
                if isinstance(t, tuple) and t and t[0] == 'sel' and t[1] == xs:
                    cmap[t] = sym('_boundary')      # which boundaries are read is decided by R1.reads
            collapsed = _ieee_exact(T.subst(rn['body'], cmap))
            ops = set(t[0] for t in T.subterms(collapsed) if isinstance(t, tuple) and t and t[0] not in
                      ('num', 'sym', 'sel', 'pre', 'trunc', 'fld', 'ite', '<', '<=', '==', '!=', '>', '>=', 'fn'))
            if collapsed == sym('_boundary'):
                ctx.holds('R1.collapsed_bin_exact', where, 'for a bin of zero width the sampled coordinate is exactly '
                          'the boundary (only exact IEEE identities used): the point lies in the bin reported for it')
            elif ops - {'+', '-', '*', '/'}:
                raise AnalysisBroken('coordinate formula of vegas_icdf uses operations whose rounding is not modelled: %s'
                                     % sorted(ops - {'+', '-', '*', '/'}))
            else:
                ctx.violation('R1.collapsed_bin_exact', where, 'for a bin of zero width (left == right == a) the sampled '
                              'coordinate is not exactly a in floating-point arithmetic: the point leaves the bin that is '
                              'reported for it', {'coordinate_for_left_eq_right': T.pretty(collapsed)[:300]})
        b = upd_by_loc(ls, ('lv', f.params[2].id, ()))
        if b is not None and b['kind'] == 'map':
            stored = b['body']
            exp = T.subst(idx, {rn_pre(ls, f): sym('random_numbers'), sym(f.params[1].name): sym('random_numbers')})
            stored = T.subst(stored, {rn_pre(ls, f): sym('random_numbers'), sym(f.params[1].name): sym('random_numbers')})
            if stored == exp:
                ctx.holds('R1.stored_bin', where, 'the bin index reported for the point is the index used')
            else:
                ctx.violation('R1.stored_bin', where, 'the stored bin index differs from the index used '
                              'to read the grid', {'stored': T.pretty(stored)[:300]})
        else:
            ctx.violation('R1.stored_bin', where, 'the bin index is not stored for every dimension')
    ctx.guard('R1', fsite(f), r1)

    # ---------------------------------------------------------------- R2/R3/R4 vegas_refine_pdf
    g = p.one('hep::vegas_refine_pdf')
    ctx.analysed(g)
    where = fsite(g)
    s, ex = summarise(p, g)
    dims = fld(PDF, 'dimensions_')
    def own(l):
        # loops of vegas_refine_pdf and of helper functions it was split into (not of class methods
        # of the grid that happen to be inlined)
        return l.func is g or l.func.record is None
    outer = [l for l in s.loops if l.func is g and l.lo == ZERO and l.hi == dims and l.regular]

    def r2():
        if len(outer) != 1:
            raise AnalysisBroken('per-dimension loop of vegas_refine_pdf not recognised')
        lo_ = outer[0]
        # the storage that is returned (whatever the local is called)
        u = upd_by_final(lo_, fld(s.ret, 'x'))
        if u is None:
            cands = [u_ for u_ in lo_.updates.values() if u_['loc'][2] and u_['loc'][2][-1] == ('f', 'x')]
            u = cands[0] if len(cands) == 1 else None
        if u is None:
            raise AnalysisBroken('vegas_refine_pdf does not write the boundaries of its result')
        skip = False
        for t in T.subterms(u['next']):
            if isinstance(t, tuple) and t and t[0] == 'ite' and (t[2] == u['pre'] or t[3] == u['pre']):
                skip = True
        if u['next'] == u['pre']:
            skip = True
        init = u['init']
        copy = init == fld(PDF, 'x')
        w = '%s:vegas_refine_pdf' % lo_.node.where()
        if not skip:
            ctx.holds('R2.skip_keeps_grid', w, 'every path of the per-dimension loop rewrites the '
                      'interior boundaries of that dimension')
        elif copy:
            ctx.holds('R2.skip_keeps_grid', w, 'a dimension without data is skipped and the result was '
                      'initialised as a copy of the input grid: the grid is left as it was')
        else:
            ctx.violation('R2.skip_keeps_grid', w, 'a dimension whose (smoothed) data are all zero is '
                          'skipped, but the result was not initialised from the input grid: that '
                          'dimension silently becomes the default grid of the constructor',
                          {'result_initialised_from': T.pretty(init)[:300],
                           'abstract_counterexample': 'grid {0,.1,.2,.3,1}, data all zero -> {0,.25,.5,.75,1}'})
        if fld(s.ret, 'bins_') == bins and fld(s.ret, 'dimensions_') == dims:
            ctx.holds('R2.shape', where, 'the refined grid has the bins and dimensions of the input')
        else:
            ctx.violation('R2.shape', where, 'the refined grid changes bins / dimensions')
    ctx.guard('R2', where, r2)

    def r3():
        # the loop that writes the result inside the per-dimension loop (identified by what it
        # writes - the storage returned - not by variable names)
        ou = upd_by_final(outer[0], fld(s.ret, 'x')) if outer else None
        if ou is None:
            raise AnalysisBroken('the boundaries of the returned grid are not written in the per-dimension loop')
        wl = [l for l in s.loops if own(l) and l not in outer and upd_by_loc(l, ou['loc']) is not None]
        if len(wl) != 1:
            raise AnalysisBroken('redistribution loop of vegas_refine_pdf not recognised')
        l5 = wl[0]
        w = '%s:vegas_refine_pdf' % l5.node.where()
        u = upd_by_loc(l5, ou['loc'])
        nx = u['next']
        i = outer[0].idx
        ok = (l5.lo, l5.hi) == (ONE, bins) and isinstance(nx, tuple) and nx[0] == 'vupd' and \
            nx[1] == u['pre'] and T.same(nx[2], add(mul(i, add(bins, ONE)), l5.idx))
        if ok:
            ctx.holds('R3.interior_only', w, 'refinement writes exactly boundaries 1 .. bins-1 of '
                      'dimension i: the end points 0 and 1 are inherited from the initial value')
        else:
            ctx.violation('R3.interior_only', w, 'refinement does not write exactly the interior '
                          'boundaries 1 .. bins-1 of the current dimension',
                          {'range': [T.pretty(l5.lo), T.pretty(l5.hi)],
                           'written': T.pretty(nx[2])[:300] if isinstance(nx, tuple) and nx[0] == 'vupd' else T.pretty(nx)[:300]})
            return
        # R4: formula of the new boundary: cur - (cur - prev) * (acc - avg) / imp[b - 1]
        new_left = nx[3]
        xs = fld(PDF, 'x')
        row = mul(i, add(bins, ONE))
        bh = None
        for t in T.subterms(new_left):
            if isinstance(t, tuple) and t and t[0] == 'sel' and t[1] == xs:
                for h in T.subterms(t[2]):
                    if isinstance(h, tuple) and h and h[0] == 'havoc' and T.same(sub(t[2], h), row):
                        bh = h
        if bh is None:
            raise AnalysisBroken('the old bin the new boundary falls into is not identified')
        divs = [t for t in T.subterms(new_left) if isinstance(t, tuple) and t and t[0] == '/'
                and isinstance(t[2], tuple) and t[2] and t[2][0] in ('sel', 'ite')]
        V = None
        for t in T.subterms(new_left):
            if isinstance(t, tuple) and t and t[0] == 'sel' and t[1] != xs and T.occurs(t[2], bh):
                V = t[1]
        # the importance vector may have been folded into an ite by sel(); recover it from the loops
        cand = []
        for l in s.loops:
            if not own(l) or l in outer or l is l5:
                continue
            for lab, uu in l.updates.items():
                if uu['kind'] == 'map' and (l.lo, l.hi) == (ZERO, bins) and \
                        any(ux['kind'] == 'sum' for ux in l.updates.values()):
                    cand.append((l, uu))
        if len(cand) != 1:
            raise AnalysisBroken('importance loop not recognised (%d candidates)' % len(cand))
        l4, tmpv = cand[0]
        imp_vec = tmpv['final']
        sums = [uu for uu in l4.updates.values() if uu['kind'] == 'sum']
        if len(sums) != 1:
            raise AnalysisBroken('sum of the importances not recognised')
        avg_u = sums[0]
        avg = div(avg_u['final'], bins)
        th = None
        for t in T.subterms(new_left):
            if isinstance(t, tuple) and t and t[0] == '-' and t[2] == avg and isinstance(t[1], tuple) and t[1][0] == 'havoc':
                th = t[1]
        if th is None:
            ctx.violation('R4.new_boundary', w, 'the overshoot of the accumulated importance over the '
                          'average importance does not enter the new boundary',
                          {'new_left': T.pretty(new_left)[:400]})
            return
        cur = sel(xs, add(row, bh))
        prev = sel(xs, add(row, sub(bh, ONE)))
        want = F.vegas_new_left(cur, prev, sub(th, avg), sel(imp_vec, sub(bh, ONE)))
        check_equal(ctx, 'R4.new_boundary', w, 'new boundary inside the old bin (bin-1, bin), divided by the '
                    'importance of that bin as computed for THIS dimension', T.canon_idx(new_left), T.canon_idx(want))
        # importance function
        norm = None
        for pc_c in l4.pc:
            c_ = norm_cond(pc_c)
            if isinstance(c_, tuple) and len(c_) == 3 and c_[0] == '!=' and ZERO in (c_[1], c_[2]):
                norm = c_[2] if c_[1] == ZERO else c_[1]
        w4 = '%s:vegas_refine_pdf' % l4.node.where()
        if norm is None:
            ctx.violation('R4.norm_nonzero', w4, 'the importance loop (division by norm) can be reached '
                          'with norm == 0', {'entered_under': T.pretty(T.conj(l4.pc))[:300]})
            return
        ctx.holds('R4.norm_nonzero', w4, 'the importance loop is entered only under norm != 0')
        body = tmpv['body']
        # the smoothed datum of the bin: the value tested against zero
        t_ = None
        if isinstance(body, tuple) and body[0] == 'ite':
            c_ = norm_cond(body[1])
            if isinstance(c_, tuple) and len(c_) == 3 and c_[0] in ('!=', '==') and ZERO in (c_[1], c_[2]):
                t_ = c_[2] if c_[1] == ZERO else c_[1]
                if c_[0] == '==':
                    body = ('ite', ('!=', t_, ZERO), body[3], body[2])
        if t_ is None:
            raise AnalysisBroken('guard `smoothed datum != 0` of the importance not recognised')
        if not (isinstance(t_, tuple) and t_[0] in ('sel', 'ite')):
            raise AnalysisBroken('smoothed datum is not an element of the smoothed data')
        imp = F.vegas_importance(t_, norm, sym('alpha'))
        empty = body[3]
        check_equal(ctx, 'R4.importance', w4, 'damped importance ((r-1)/log r)^alpha with r = smoothed datum / norm',
                    body[2], imp)
        # an empty bin must carry importance zero *of this dimension*
        env = fp.Env({t_: fp.ZERO})
        ez = fp.ev(empty, env)
        if ez.cls == fp.ZERO and not ez.tainted:
            ctx.holds('R4.empty_bins_zero', w4, 'a bin whose smoothed datum is zero has importance zero')
        else:
            ctx.violation('R4.empty_bins_zero', w4, 'a bin without data keeps a value that is not the zero '
                          'importance of this dimension (stale storage from another dimension or an earlier '
                          'step): the redistribution then places boundaries where this dimension has no data',
                          {'importance_of_empty_bin': T.pretty(empty)[:300]})
        want_avg = ite(T.cmp('!=', t_, ZERO), imp, ZERO)
        check_equal(ctx, 'R4.average', w4, 'average importance = sum of the importances / bins', avg_u['body'], want_avg)
    ctx.guard('R3', where, r3)

    def r4s():
        """smoothing: by the inductive invariant previous = D[k-1], current = D[k], V[j] = D[j] for
        j >= k (D = raw data of the dimension) every interior entry becomes the 3-point average of the
        raw data and the two end entries the 2-point average; checked on the one-iteration transition
        and the initial / final statements - the loop is not executed"""
        from .. import algebra
        i = outer[0].idx
        sm = [l for l in s.loops if own(l) and l not in outer and (l.lo, l.hi) == (ONE, sub(bins, ONE))]
        if len(sm) != 1:
            raise AnalysisBroken('smoothing loop (1 .. bins-2) of vegas_refine_pdf not recognised')
        l3 = sm[0]
        w3 = '%s:vegas_refine_pdf' % l3.node.where()
        k = l3.idx
        vec = [u for u in l3.updates.values() if isinstance(u['next'], tuple) and u['next'][0] == 'vupd'
               and u['next'][1] == u['pre'] and u['next'][2] == k]
        if len(vec) != 1:
            raise AnalysisBroken('smoothed vector of the smoothing loop not recognised')
        V = vec[0]
        val = V['next'][3]
        scal = [u for u in l3.updates.values() if u is not V]
        B = [u for u in scal if u['next'] == sel(V['pre'], add(k, ONE))]
        A = [u for u in scal if B and u['next'] == B[0]['pre']]
        N = [u for u in scal if algebra.equal(u['next'], add(u['pre'], val))[0]]
        if len(A) != 1 or len(B) != 1 or len(N) != 1:
            ctx.violation('R4.smoothing', w3, 'the rolling window of the smoothing loop is not (previous := '
                          'current; current := next raw entry; norm += smoothed entry)',
                          {'updates': {u['label']: T.pretty(u['next'])[:160] for u in l3.updates.values()}})
            return
        A, B, N = A[0], B[0], N[0]
        D = ('vslice', sym('data'), mul(i, bins), mul(add(i, ONE), bins))
        d0, d1 = sel(D, ZERO), sel(D, ONE)
        half = T.num('1/2')
        ok_init = algebra.equal(A['init'], d0)[0] and algebra.equal(B['init'], d1)[0] and \
            algebra.equal(N['init'], mul(half, add(d0, d1)))[0] and \
            isinstance(V['init'], tuple) and V['init'][0] == 'vupd' and V['init'][2] == ZERO and \
            _same_data(V['init'][1], D) and algebra.equal(V['init'][3], mul(half, add(d0, d1)))[0]
        # step under the invariant
        inv = {A['pre']: sel(D, sub(k, ONE)), B['pre']: sel(D, k), sel(V['pre'], add(k, ONE)): sel(D, add(k, ONE))}
        want = div(add(add(sel(D, sub(k, ONE)), sel(D, k)), sel(D, add(k, ONE))), T.num(3))
        ok_step = algebra.equal(T.subst(val, inv), want)[0]
        if ok_init and ok_step:
            ctx.holds('R4.smoothing', w3, 'interior entries become (D[k-1] + D[k] + D[k+1])/3 of the raw data of '
                      'this dimension (inductive invariant of the rolling window verified on the transition), '
                      'entry 0 becomes (D[0] + D[1])/2, norm accumulates the smoothed entries')
        else:
            ctx.violation('R4.smoothing', w3, 'smoothing is not the 3-point average of the raw data of this '
                          'dimension' if not ok_step else 'the rolling window of the smoothing is not initialised '
                          'with the first two raw entries of this dimension',
                          {'written': T.pretty(T.subst(val, inv))[:300], 'want': T.pretty(want)[:200],
                           'init': {x['label']: T.pretty(x['init'])[:120] for x in (A, B, N, V)}})
        # last entry: (previous + current)/2 after the loop, added to norm
        imp = [l for l in s.loops if own(l) and l is not l3 and l not in outer and (l.lo, l.hi) == (ZERO, bins)
               and any(u['kind'] == 'sum' for u in l.updates.values())]
        if len(imp) == 1:
            vin = None
            for u in imp[0].updates.values():
                if u['kind'] == 'map':
                    vin = u['init']
            hA, hB, hV = A['final'], B['final'], V['final']
            want_last = T.vupd(hV, sub(T.size(hV), ONE), mul(half, add(hA, hB)))
            if vin is not None and (vin == want_last or (isinstance(vin, tuple) and vin[0] == 'vupd' and vin[1] == hV
                                                         and algebra.equal(vin[3], mul(half, add(hA, hB)))[0])):
                ctx.holds('R4.smoothing_last', w3, 'the last entry becomes (D[bins-2] + D[bins-1])/2')
            elif vin is not None and isinstance(vin, tuple) and vin[0] == 'havoc':
                pass
            elif vin is not None:
                ctx.violation('R4.smoothing_last', w3, 'the last smoothed entry is not the average of the last '
                              'two raw entries', {'value': T.pretty(vin)[:300]})
    ctx.guard('R4.smoothing', where, r4s)

    from . import C01
    from .common import Proxy, share
    share(ctx, 'C01', 'R5/C01.', ['R1.'])

    # ---------------------------------------------------------------- R3 uniform grid end points
    ctor = [c for c in instances(p, 'hep::vegas_pdf::vegas_pdf') if len(c.params) == 2 and not c.is_implicit
            and 'istream' not in (c.params[0].type or '') and 'vector' not in (c.params[0].type or '')]
    ctx.count('vegas_pdf(dimensions, bins) constructors', len(ctor), 1)
    for c in ctor:
        ctx.analysed(c)

        def rc(c=c):
            sc, exc = summarise(p, c)
            B, D = sym(c.params[1].name), sym(c.params[0].name)
            xlv = ('lv', ('this', 'this'), (('f', 'x'),))
            fill = []
            for l in sc.loops:
                u_ = upd_by_loc(l, xlv)
                # the loop that computes the boundaries (not one that replicates them: its body reads x)
                if l.func is c and (l.lo, l.hi) == (ZERO, add(B, ONE)) and u_ is not None and u_['kind'] == 'map' \
                        and not T.occurs(u_['body'], u_['pre']) and \
                        not any(isinstance(t, tuple) and t and t[0] == 'sel' for t in T.subterms(u_['body'])):
                    fill.append((l, u_))
            if len(fill) != 1:
                raise AnalysisBroken('uniform fill loop of vegas_pdf(dimensions, bins) not recognised')
            body = fill[0][1]['body']
            # the other dimensions: every loop of the constructor that writes x besides the fill must copy the
            # first dimension block-wise to dimension i, for every i in [1, dimensions)
            S = add(B, ONE)
            others = [(l, upd_by_loc(l, xlv)) for l in sc.loops if l.func is c and l is not fill[0][0]
                      and upd_by_loc(l, xlv) is not None and upd_by_loc(l, xlv)['kind'] != 'same']
            if T.canon(T.size(fill[0][1]['init'])) != T.canon(mul(D, S)) and \
                    T.canon(T.size(fill[0][1]['init'])) != T.canon(mul(S, D)):
                ctx.violation('R3.replicated', fsite(c), 'the default grid does not hold dimensions x (bins + 1) '
                              'boundaries', {'size': T.pretty(T.size(fill[0][1]['init']))[:120]})
            elif len([o for o in others if 'copy' in o[1]]) != 1 or \
                    [o for o in others if 'copy' not in o[1] and o[1]['kind'] != 'blockcopy']:
                raise AnalysisBroken('the loop that copies the first dimension of the default grid to the others '
                                     'is not recognised')
            else:
                lr, ur = [o for o in others if 'copy' in o[1]][0]
                cp = ur['copy']
                ok_r = cp['self'] and T.canon(cp['dst']) == T.canon(mul(lr.idx, S)) and cp['a'] == ZERO and \
                    T.canon(cp['b']) == T.canon(S) and lr.lo in (ZERO, ONE) and lr.hi == D and \
                    sc.loops.index(lr) > sc.loops.index(fill[0][0])
                if ok_r:
                    ctx.holds('R3.replicated', fsite(c), 'boundaries [0, bins] of the first dimension are copied to '
                              'offset i x (bins + 1) for every dimension i in [1, dimensions)')
                else:
                    ctx.violation('R3.replicated', fsite(c), 'the first dimension of the default grid is not '
                                  'replicated to every other dimension at offset i x (bins + 1)',
                                  {'destination': T.pretty(cp['dst'])[:120], 'source': '[%s, %s)' % (
                                      T.pretty(cp['a'])[:60], T.pretty(cp['b'])[:60]),
                                   'dimensions': '[%s, %s)' % (T.pretty(lr.lo), T.pretty(lr.hi))})
            fill = [fill[0][0]]
            k = fill[0].idx
            check_equal(ctx, 'R3.uniform_left_end', fsite(c), 'first boundary of the default grid',
                        T.subst(body, {k: ZERO}), ZERO)
            check_equal(ctx, 'R3.uniform_right_end', fsite(c), 'last boundary of the default grid',
                        T.subst(body, {k: B}), ONE)
            check_equal(ctx, 'R3.uniform', fsite(c), 'default grid boundary k = k / bins', body, div(k, B))
            # the end points must be 0 and 1 EXACTLY in floating point, not only over the reals: only
            # identities that are exact in IEEE arithmetic are used (x/x = 1, 0/x = 0, 0*x = 0, x*1 = x,
            # x+0 = x, x-x = 0 for finite non-zero x)
            lo_x, hi_x = _ieee_exact(T.subst(body, {k: ZERO})), _ieee_exact(T.subst(body, {k: B}))
            if lo_x == ZERO and hi_x == ONE:
                ctx.holds('R3.uniform_ends_exact', fsite(c), 'first boundary is exactly 0 and last boundary is '
                          'exactly 1 in floating-point arithmetic (bins/bins)')
            else:
                ctx.violation('R3.uniform_ends_exact', fsite(c), 'the end points of the default grid are 0 and 1 only '
                              'over the reals: in floating point the last boundary is %s, which is below 1 for '
                              'some bin counts (e.g. 49 bins in double for bins*(1/bins)); refinement inherits it'
                              % T.pretty(hi_x)[:120], {'first': T.pretty(lo_x)[:120], 'last': T.pretty(hi_x)[:120]})
        ctx.guard('R3.uniform', fsite(c), rc)
    # the grid a run continues with is the refinement of the last result: the accessor that derives
    # it must not short-cut the refinement (shared with C19)
    share(ctx, 'C19', 'R6/C19.', ['R2.next_grid'])
    # every rank refines its grid after every iteration (shared with C19)
    share(ctx, 'C19', 'R7/C19.', ['R4.mpi_state_chain', 'R4.mpi_refinement'])

