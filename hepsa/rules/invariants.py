"""E5 (part): size relations between containers of the serialised classes."""
from .. import terms as T
from .. import algebra
from ..terms import sym, add, mul, sub, ZERO, ONE, fld, sel
from .common import *

TH = sym('this')


def check_implicit_counts(ctx, p):
    # ---- vegas_pdf: |x| == (bins_ + 1) * dimensions_ -------------------------------------------
    ctors = [c for c in instances(p, 'hep::vegas_pdf::vegas_pdf') if len(c.params) == 2 and not c.is_implicit]
    for c in ctors:
        def r(c=c):
            s, ex = summarise(p, c)
            th = s.this
            ok, wit = algebra.equal(T.size(fld(th, 'x')), mul(add(fld(th, 'bins_'), ONE), fld(th, 'dimensions_')))
            if ok:
                ctx.holds('inv.vegas_pdf_size', fsite(c), 'constructor establishes |x| = (bins+1)*dimensions')
            else:
                ctx.violation('inv.vegas_pdf_size', fsite(c), 'constructor does not establish |x| = '
                              '(bins+1)*dimensions: the reader would extract a different number of '
                              'boundaries than the writer emits', wit)
        ctx.guard('inv.vegas_pdf_size', fsite(c), r)
    for m in instances(p, 'hep::vegas_pdf::set_bin_left'):
        def r2(m=m):
            s, ex = summarise(p, m)
            if T.size(fld(s.this, 'x')) == T.size(fld(TH, 'x')) and fld(s.this, 'bins_') == fld(TH, 'bins_') \
                    and fld(s.this, 'dimensions_') == fld(TH, 'dimensions_'):
                ctx.holds('inv.vegas_pdf_size', fsite(m), 'set_bin_left preserves |x|, bins_, dimensions_')
            else:
                ctx.violation('inv.vegas_pdf_size', fsite(m), 'set_bin_left changes the shape of the grid')
        ctx.guard('inv.vegas_pdf_size', fsite(m), r2)
    # any other non-const member of vegas_pdf must not exist
    rec = instances(p, 'hep::vegas_pdf::set_bin_left')[0].record
    for m in rec.methods:
        if m.kind == 'method' and not m.is_const and not m.is_implicit and not m.is_static and \
                m.name not in ('set_bin_left', 'operator=') and not m.is_pattern and m.body is not None:
            ctx.broken('inv.vegas_pdf_size', fsite(m), 'new mutating member of vegas_pdf: size invariant not re-established')

    # ---- vegas_result: |adjustment_data_| == pdf_.bins * pdf_.dimensions at the construction site
    for f in instances(p, 'hep::vegas_iteration'):
        def r3(f=f):
            s, ex = summarise(p, f, opaque={'hep::accumulator::invoke', 'hep::accumulator::result',
                                            'hep::make_accumulator'})
            ret = s.ret
            pdf = fld(ret, 'pdf_')
            ok, wit = algebra.equal(T.size(fld(ret, 'adjustment_data_')),
                                    mul(fld(pdf, 'bins_'), fld(pdf, 'dimensions_')))
            if ok:
                ctx.holds('inv.vegas_result_size', fsite(f), 'vegas_iteration builds results with '
                          '|adjustment_data| = bins*dimensions of the stored pdf')
            else:
                ctx.violation('inv.vegas_result_size', fsite(f), 'vegas_iteration stores adjustment data '
                              'whose size is not bins*dimensions of the stored pdf', wit)
        ctx.guard('inv.vegas_result_size', fsite(f), r3)

    # ---- distribution_result: |results_| == bins_x*bins_y at the construction site ---------------
    for f in [r_ for r_ in instances(p, 'hep::accumulator::result')
              if any(fl['name'] == 'indices_' for fl in r_.record.fields)]:
        def r4(f=f):
            s, ex = summarise(p, f)
            d = fld(s.ret, 'distributions_')
            if not (isinstance(d, tuple) and d[0] == 'vcomp'):
                raise AnalysisBroken('distributions of accumulator::result not recognised')
            dr = d[6]
            pa = fld(dr, 'parameters_')
            ok, wit = algebra.equal(T.size(fld(dr, 'results_')), mul(fld(pa, 'bins_x_'), fld(pa, 'bins_y_')))
            if ok:
                ctx.holds('inv.distribution_result_size', fsite(f), 'every distribution_result is built '
                          'with bins_x*bins_y bin results')
            else:
                ctx.violation('inv.distribution_result_size', fsite(f), 'a distribution_result is built '
                              'with a number of bins different from bins_x*bins_y', wit)
        ctx.guard('inv.distribution_result_size', fsite(f), r4)

    # ---- chkpt_with_rng: |generators_| == |results_| + 1 (constructors and add) -----------------
    generators_invariant(ctx, p, include_rollback=False)


def generators_invariant(ctx, p, include_rollback=True):
    n_ctor = 0
    for c in instances(p, 'hep::chkpt_with_rng::chkpt_with_rng'):
        if c.is_implicit:
            continue
        n_ctor += 1

        def r(c=c):
            s, ex = summarise(p, c, opaque={'hep::chkpt', 'hep::vegas_chkpt', 'hep::multi_channel_chkpt'})
            th = s.this
            gens = T.size(fld(th, 'generators_'))
            res = fld(th, 'results_')
            istream = len(c.params) == 1 and 'istream' in (c.params[0].type or '')
            if istream:
                want = add(T.size(res), ONE)
            else:
                # the base is constructed from the forwarded arguments: none of the non-istream base
                # constructors adds a result
                want = ONE
            ok, wit = algebra.equal(gens, want)
            if ok:
                ctx.holds('inv.generators_size', fsite(c), 'constructor establishes |generators_| = |results_| + 1')
            else:
                ctx.violation('inv.generators_size', fsite(c), 'constructor does not establish '
                              '|generators_| = |results_| + 1', dict(wit or {}, generators=T.pretty(gens)[:200]))
        ctx.guard('inv.generators_size', fsite(c), r)
    for m in instances(p, 'hep::chkpt_with_rng::add'):
        def r2(m=m):
            s, ex = summarise(p, m)
            dg = algebra.equal(T.size(fld(s.this, 'generators_')), add(T.size(fld(TH, 'generators_')), ONE))[0]
            dr = algebra.equal(T.size(fld(s.this, 'results_')), add(T.size(fld(TH, 'results_')), ONE))[0]
            if dg and dr:
                ctx.holds('inv.generators_size', fsite(m), 'add() appends exactly one result and one generator')
            else:
                ctx.violation('inv.generators_size', fsite(m), 'add() does not append exactly one result and '
                              'one generator', {'generators': T.pretty(T.size(fld(s.this, 'generators_')))[:200],
                                                'results': T.pretty(T.size(fld(s.this, 'results_')))[:200]})
            if fld(s.this, 'generators_') == ('vpush', fld(TH, 'generators_'), sym('generator')) and \
                    fld(s.this, 'results_') == ('vpush', fld(TH, 'results_'), sym('result')):
                ctx.holds('inv.add_appends', fsite(m), 'add(result, generator) appends its arguments at the end')
            else:
                ctx.violation('inv.add_appends', fsite(m), 'add() does not append (result, generator) at the end')
        ctx.guard('inv.generators_size', fsite(m), r2)
    # non-istream base-class constructors start without results
    for base in ('hep::chkpt', 'hep::vegas_chkpt', 'hep::multi_channel_chkpt'):
        short = base.split('::')[-1]
        for c in instances(p, base + '::' + short):
            if c.is_implicit or (len(c.params) == 1 and 'istream' in (c.params[0].type or '')):
                continue
            if c.is_defaulted:
                continue

            def r3(c=c):
                s, ex = summarise(p, c)
                res = fld(s.this, 'results_')
                if T.size(res) == ZERO or (isinstance(res, tuple) and res[0] == 'undef'):
                    ctx.holds('inv.generators_size', fsite(c), 'a freshly constructed checkpoint has no results')
                else:
                    ctx.violation('inv.generators_size', fsite(c), 'a freshly constructed checkpoint '
                                  'already has results', {'results_': T.pretty(res)[:200]})
            ctx.guard('inv.generators_size', fsite(c), r3)
