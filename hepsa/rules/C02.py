"""C02 - each iteration result is the documented estimator of exactly the sampled values."""
import os
import sys

from .. import terms as T
from ..terms import sym, add, mul, sub, div, ZERO, ONE, fld, sel, ite
from .common import *

sys.path.insert(0, os.path.dirname(os.path.dirname(os.path.dirname(os.path.abspath(__file__)))))
from spec import formulas as F   # noqa

ACC_OPAQUE = {'hep::accumulator::invoke', 'hep::accumulator::result', 'hep::make_accumulator'}


def kernel_loop(s, kern):
    """The per-call loop: the loop whose body calls accumulator.invoke."""
    inv = [(e, l) for e, l in flat_effects(s.effects)
           if e['kind'] == 'hcall' and e['name'] == 'hep::accumulator::invoke']
    return inv


def check(ctx):
    p = ctx.prog
    no_use_after_move(ctx, 'move.no_use_after_move', ['hep::plain_iteration', 'hep::vegas_iteration', 'hep::multi_channel_iteration', 'hep::accumulator::result'], opaque=ACC_OPAQUE, minimum=3)
    # counters are counted and reported in std::size_t
    counters_full_width(ctx, 'prec.counter_width', ['hep::accumulator::', 'hep::plain_iteration', 'hep::vegas_iteration', 'hep::multi_channel_iteration', 'hep::create_result'])
    # all arithmetic behind this property happens in the numeric type T of the instantiation
    single_precision(ctx, 'prec.single_type', ['hep::accumulator::', 'hep::accumulate', 'hep::plain_iteration', 'hep::vegas_iteration', 'hep::multi_channel_iteration', 'hep::mc_result::', 'hep::create_result', 'hep::projector::'], 1)
    # no constructor of the classes this property computes with leaves a member indeterminate
    members_initialised(ctx, 'init.members', ['hep::accumulator', 'hep::mc_result', 'hep::plain_result', 'hep::vegas_result', 'hep::multi_channel_result'], 6)
    # ------------------------------------------------------------ R1 per-call loops
    nk = 0
    for kern in KERNELS:
        for f in instances(p, kern):
            ctx.analysed(f)
            nk += 1

            def r1(f=f, kern=kern):
                s, ex = summarise(p, f, opaque=ACC_OPAQUE)
                where = fsite(f)
                inv = kernel_loop(s, kern)
                if len(inv) != 1:
                    ctx.violation('R1.once', where, 'the per-call loop must contain exactly one '
                                  'accumulator.invoke, found %d' % len(inv))
                    return
                e, loops = inv[0]
                if len(loops) != 1:
                    ctx.violation('R1.once', where, 'accumulator.invoke is nested in %d loops: the '
                                  'integrand is not evaluated exactly once per call' % len(loops))
                    return
                lp = loops[0]
                ls = s.loops[lp['loop']]
                if e['pc'] != ():
                    ctx.violation('R1.once', '%s:%s' % (e['where'], kern.replace('hep::', '')),
                                  'accumulator.invoke is conditional: some calls are not evaluated',
                                  {'condition': T.pretty(T.conj(e['pc']))[:400]})
                elif not ls.regular:
                    ctx.violation('R1.once', '%s:%s' % (ls.node.where(), kern.replace('hep::', '')),
                                  'the per-call loop can be left early (%s)' % ls.why)
                else:
                    ctx.holds('R1.once', '%s:%s' % (e['where'], kern.replace('hep::', '')),
                              'one unconditional accumulator.invoke per iteration of the per-call loop')
                calls = sym(f.params[1].name)
                if lp['lo'] == ZERO and lp['hi'] == calls:
                    ctx.holds('R1.bounds', '%s:%s' % (ls.node.where(), kern.replace('hep::', '')),
                              'per-call loop runs i = 0 .. calls with step 1')
                else:
                    ctx.violation('R1.bounds', '%s:%s' % (ls.node.where(), kern.replace('hep::', '')),
                                  'per-call loop does not run exactly `calls` times',
                                  {'from': T.pretty(lp['lo']), 'to': T.pretty(lp['hi'])})
                res = [x for x, l in flat_effects(s.effects)
                       if x['kind'] == 'hcall' and x['name'] == 'hep::accumulator::result']
                if len(res) != 1 or res[0]['args'] != [calls]:
                    ctx.violation('R1.result_calls', where, 'the result is not built from '
                                  'accumulator.result(calls) with the requested number of calls',
                                  {'args': [[T.pretty(a) for a in x['args']] for x in res]})
                else:
                    ctx.holds('R1.result_calls', where, 'result = accumulator.result(calls) with '
                              'the same `calls` as the loop bound')
                # the returned object is that result (base sub-object)
                rr = s.ret
                ok = isinstance(rr, tuple) and rr[0] == 'obj' and \
                    (rr[2] if rr[2] is not None else None) is not None and \
                    isinstance(rr[2], tuple) and rr[2][0] == 'hcall' and rr[2][1] == 'hep::accumulator::result'
                if kern == 'hep::plain_iteration':
                    ok = isinstance(rr, tuple) and rr[0] == 'hcall' and rr[1] == 'hep::accumulator::result'
                if ok:
                    ctx.holds('R1.returned', where, 'the kernel returns accumulator.result(calls)')
                else:
                    ctx.violation('R1.returned', where, 'the kernel does not return the accumulated '
                                  'result', {'returned': T.pretty(rr)[:400]})
                if kern == 'hep::vegas_iteration':
                    r6_vegas(ctx, f, s, ls, e)
                if kern == 'hep::multi_channel_iteration':
                    r6_multi(ctx, f, s, ls, e)
            ctx.guard('R1', fsite(f), r1)
    ctx.count('iteration kernels', nk, 6)

    # ------------------------------------------------------------ R2 invoke
    ninv = 0
    roles = {}
    for f in instances(p, 'hep::accumulator::invoke'):
        ctx.analysed(f)
        ninv += 1

        def r2(f=f):
            s, ex = summarise(p, f, opaque={'hep::accumulate'})
            where = fsite(f)
            uc = [e for e, l in flat_effects(s.effects) if e['kind'] == 'ucall']
            if len(uc) != 1 or uc[0]['pc'] != ():
                ctx.violation('R2.integrand_once', where, 'the integrand function is not called '
                              'exactly once, unconditionally (%d calls)' % len(uc))
                return
            ctx.holds('R2.integrand_once', where, 'integrand.function()(point...) called exactly once')
            fv = ('ucall', uc[0]['id'], uc[0]['functor'])
            wc = [e for e, l in flat_effects(s.effects) if e['kind'] in ('vcall', 'hcall')
                  and e['name'].endswith('::weight')]
            w = None
            for t in T.subterms(s.ret):
                if isinstance(t, tuple) and t[0] in ('vcall', 'hcall') and str(t[1]).endswith('::weight'):
                    w = t
            if w is None:
                # weight() inlined (dynamic type known): take the multiplier of f
                raise AnalysisBroken('cannot identify the point weight in invoke')
            fw = mul(fv, w)
            fin = ('fn', 'isfinite', fw)
            want_ret = ite(T.cmp('!=', fv, ZERO), ite(fin, fw, ZERO), ZERO)
            check_equal(ctx, 'R2.return', where, 'value returned by invoke (0 / f*w / 0)', s.ret,
                        want_ret)
            acc = [e for e, l in flat_effects(s.effects) if e['kind'] == 'hcall'
                   and e['name'] == 'hep::accumulate']
            if len(acc) != 1:
                ctx.violation('R2.accumulate', where, 'expected exactly one accumulate() call, found %d' % len(acc))
                return
            a = acc[0]
            want_pc = (T.cmp('!=', fv, ZERO), fin)
            if norm_pc(a['pc']) != norm_pc(want_pc):
                ctx.violation('R2.accumulate', where, 'accumulate() is not executed exactly for the '
                              'non-zero finite evaluations',
                              {'condition': T.pretty(T.conj(a['pc']))[:500],
                               'expected': T.pretty(T.conj(want_pc))[:500]})
            else:
                ctx.holds('R2.accumulate', where, 'accumulate() executed iff f != 0 and f*w finite')
            ok, wit = algebra_equal(accumulate_args(p, a)[0][3], fw)
            if ok:
                ctx.holds('R2.accumulated_value', where, 'accumulated value is f * point.weight() '
                          '(weight applied exactly once)')
            else:
                ctx.violation('R2.accumulated_value', where, 'accumulated value is not f*w', wit)
            this = s.this
            sum_cell, sq_cell, comp_cell = accumulate_args(p, a)[0][:3]
            roles[f.record.qualname] = (sum_cell, sq_cell, comp_cell)
            if len({sum_cell, sq_cell, comp_cell}) != 3:
                ctx.violation('R2.cells', where, 'sum, sum of squares and compensation share storage',
                              {'cells': [T.pretty(x) for x in (sum_cell, sq_cell, comp_cell)]})
            # counters
            nzc, finc = counter_cells(this)
            want_nz = ite(T.cmp('!=', fv, ZERO), ONE, ZERO)
            want_fin = ite(T.cmp('!=', fv, ZERO), ite(fin, ONE, ZERO), ZERO)
            check_equal(ctx, 'R2.non_zero_counter', where, 'increment of non_zero_calls', nzc, want_nz)
            check_equal(ctx, 'R2.finite_counter', where, 'increment of finite_calls', finc, want_fin)
        ctx.guard('R2', fsite(f), r2)
    ctx.count('accumulator::invoke instantiations', ninv, 6)

    # ------------------------------------------------------------ R3 accumulate
    accs = [f for f in instances(p, 'hep::accumulate') if len(f.params) == 4]
    ctx.count('accumulate(T&,T&,T&,T) definitions', len(accs), 1)
    for f in accs:
        ctx.analysed(f)

        def r3(f=f):
            s, ex = summarise(p, f)
            where = fsite(f)
            names = [f.params[i].name for i in accumulate_roles(p)]
            S, Q, C, V = [sym(n) for n in names]
            check_equal(ctx, 'R3.sumsq', where, 'second accumulator += value^2',
                        ex.param_value(s, names[1]), add(Q, mul(V, V)))
            check_equal(ctx, 'R3.sum', where, 'first accumulator = sum + (value - compensation)',
                        ex.param_value(s, names[0]), add(S, sub(V, C)))
            check_equal(ctx, 'R3.comp_real', where, 'compensation is zero in real arithmetic',
                        ex.param_value(s, names[2]), ZERO)
        ctx.guard('R3', fsite(f), r3)

    # ------------------------------------------------------------ R4 mc_result formulas
    for name, want in (('value', F.mc_value), ('variance', F.mc_variance), ('error', None)):
        f = p.one('hep::mc_result::' + name)
        ctx.analysed(f)

        def r4(f=f, name=name, want=want):
            s, ex = summarise(p, f)
            th = sym('this')
            S_, Q_, N_ = fld(th, 'sum_'), fld(th, 'sum_of_squares_'), fld(th, 'calls_')
            if name == 'value':
                w = F.mc_value(S_, N_)
            elif name == 'variance':
                w = F.mc_variance(S_, Q_, N_)
            else:
                w = ('fn', 'sqrt', F.mc_variance(S_, Q_, N_))
            check_equal(ctx, 'R4.' + name, fsite(f), 'mc_result::%s()' % name, s.ret, w)
        ctx.guard('R4', fsite(f), r4)
    counters_converted_before_combined(ctx, 'R4.no_integer_products', [p.one('hep::mc_result::value'),
                                       p.one('hep::mc_result::variance'), p.one('hep::mc_result::error'),
                                       p.one('hep::create_result')])
    for getter, field in (('calls', 'calls_'), ('non_zero_calls', 'non_zero_calls_'),
                          ('finite_calls', 'finite_calls_'), ('sum', 'sum_'),
                          ('sum_of_squares', 'sum_of_squares_')):
        f = p.one('hep::mc_result::' + getter)

        def r4g(f=f, field=field, getter=getter):
            s, ex = summarise(p, f)
            if s.ret == fld(sym('this'), field):
                ctx.holds('R4.getter', fsite(f), '%s() returns %s' % (getter, field))
            else:
                ctx.violation('R4.getter', fsite(f), '%s() does not return %s' % (getter, field),
                              {'returns': T.pretty(s.ret)[:300]})
        ctx.guard('R4.getter', fsite(f), r4g)
    # constructor: parameter -> field binding
    for f in [c for c in instances(p, 'hep::mc_result::mc_result') if len(c.params) == 5]:
        def r4c(f=f):
            s, ex = summarise(p, f)
            for q in f.params:
                want = {'calls': 'calls_', 'non_zero_calls': 'non_zero_calls_',
                        'finite_calls': 'finite_calls_', 'sum': 'sum_',
                        'sum_of_squares': 'sum_of_squares_'}.get(q.name)
                if want is None:
                    raise AnalysisBroken('mc_result constructor parameter %s not recognised' % q.name)
                if fld(s.this, want) == sym(q.name):
                    ctx.holds('R4.ctor', fsite(f) + ':' + want, 'constructor stores `%s` in %s' % (q.name, want))
                else:
                    ctx.violation('R4.ctor', fsite(f) + ':' + want, 'constructor does not store `%s` in %s'
                                  % (q.name, want), {'stored': T.pretty(fld(s.this, want))[:200]})
        ctx.guard('R4.ctor', fsite(f), r4c)

    # ------------------------------------------------------------ R5 result(): argument roles
    nres = 0
    for f in instances(p, 'hep::accumulator::result'):
        ctx.analysed(f)
        nres += 1

        def r5(f=f):
            s, ex = summarise(p, f)
            where = fsite(f)
            th = sym('this')
            r = s.ret
            calls = sym('calls')
            cells = roles.get(f.record.qualname)
            if cells is None:
                raise AnalysisBroken('roles of the accumulator storage unknown (R2 did not run)')
            sum_cell, sq_cell, _ = cells
            inv = p.one('hep::accumulator::invoke', lambda g: g.record is f.record)
            s2, ex2 = summarise(p, inv, opaque={'hep::accumulate'})
            nzc, finc = counter_cell_names(s2.this)
            check_equal(ctx, 'R5.calls', where, 'result.calls', fld(r, 'calls_'), calls)
            check_equal(ctx, 'R5.sum', where, 'result.sum bound to the compensated sum', fld(r, 'sum_'),
                        sum_cell)
            check_equal(ctx, 'R5.sumsq', where, 'result.sum_of_squares bound to the sum of squares',
                        fld(r, 'sum_of_squares_'), sq_cell)
            check_equal(ctx, 'R5.non_zero', where, 'result.non_zero_calls bound to the non-zero counter',
                        fld(r, 'non_zero_calls_'), nzc)
            check_equal(ctx, 'R5.finite', where, 'result.finite_calls bound to the finite counter',
                        fld(r, 'finite_calls_'), finc)
        ctx.guard('R5', fsite(f), r5)
    ctx.count('accumulator::result definitions', nres, 2)
    _shared(ctx)
    counters_stay_integers(ctx, 'R7.counters_stay_integers')
    fsn = []
    for nm in ('hep::mc_result::value', 'hep::mc_result::variance', 'hep::mc_result::error', 'hep::accumulate',
               'hep::accumulator::invoke', 'hep::accumulator::result'):
        fsn += list(p.find(nm))
    no_float_narrowing(ctx, 'R8.no_float_narrowing', fsn)


def counters_converted_before_combined(ctx, rule, funcs):
    """The documented formulas are over the reals; a product (or sum) of two call counters formed in
    std::size_t wraps for N > 2^32 before it is converted.  Necessary condition: in the functions
    that evaluate the formulas no integer-typed `*` combines two non-literal operands."""
    for f in funcs:
        bad = []
        for n in f.body.walk():
            if n.op == 'bin' and n.a.get('o') == '*' and ir.is_int_type(n.ty):
                a, b = n.k
                if a.op != 'lit' and b.op != 'lit':
                    bad.append(n)
            if n.op == 'assign' and n.a.get('o') == '*=' and ir.is_int_type(n.k[0].ty) and n.k[1].op != 'lit':
                bad.append(n)
        if bad:
            n = bad[0]
            ctx.violation(rule, '%s:%s' % (n.where(), strip_targs(f.qualname).replace('hep::', '')),
                          'two counters are multiplied as integers (%s) before the conversion to the numeric '
                          'type: the product wraps around for N > 2^32 and the documented formula no longer '
                          'holds' % ir.show(n)[:120],
                          {'abstract_counterexample': 'calls = 5e9: calls*(calls-1) mod 2^64 instead of 2.5e19'})
        else:
            ctx.holds(rule, fsite(f), 'every counter is converted to the numeric type before it is multiplied')


def no_float_narrowing(ctx, rule, funcs):
    """no value of the numeric type T passes through a narrower floating-point type (an unqualified
    math call that resolves to the double overload for T = long double, a float temporary, ...):
    the result then carries the error of the narrower type although every formula is right"""
    p = ctx.prog
    for f in funcs:
        ctx.analysed(f)

        def rn(f=f):
            s, ex = summarise(p, f)
            nar = [e for e, l in flat_effects(s.effects) if e['kind'] == 'fnarrow']
            if nar:
                e = nar[0]
                ctx.violation(rule, '%s:%s' % (e['where'], f.name), 'a value of type %s is converted to %s%s: for this '
                              'numeric type the result is computed with the precision / range of the narrower type'
                              % (e['frm'], e['to'], ' implicitly' if e.get('implicit') else ''),
                              {'value': T.pretty(e['operand'])[:200], 'numeric_type': p.numeric})
            else:
                ctx.holds(rule, fsite(f), 'no narrowing floating-point conversion of a computed value (T = %s)' % p.numeric)
        ctx.guard(rule, fsite(f), rn)


def counters_stay_integers(ctx, rule):
    """call counters are integers from the point where they are counted to the result that reports
    them: a detour through the floating-point type (e.g. reducing them in the same buffer as the sums)
    rounds counts above 2^mantissa (float: 2^24) and the reported counters are no longer exact"""
    p = ctx.prog
    fs = list(instances(p, 'hep::allreduce_result')) + \
        [r for r in instances(p, 'hep::accumulator::result')]
    n = 0
    for f in fs:
        ctx.analysed(f)

        def r7(f=f):
            s, ex = summarise(p, f)
            convs = [e for e, l in flat_effects(s.effects) if e['kind'] == 'conv']
            bad = []
            seen = set()

            def counters(t):
                if not isinstance(t, tuple) or id(t) in seen:
                    return
                seen.add(id(t))
                if t and t[0] == 'obj':
                    for nm, v in T.obj_fields(t).items():
                        if nm in ('calls_', 'non_zero_calls_', 'finite_calls_'):
                            if any(isinstance(x, tuple) and x and x[0] in ('trunc',) for x in T.subterms(v)):
                                bad.append((nm, v))
                        else:
                            counters(v)
                    if t[2] is not None:
                        counters(t[2])
                    return
                for c in t[1:]:
                    counters(c)
            counters(s.ret)
            if bad:
                ctx.violation(rule, fsite(f), 'the counter %s of the returned result is obtained by converting a '
                              'floating-point value back to an integer: counts beyond the mantissa (2^24 for '
                              'float) come back rounded' % bad[0][0].strip('_'),
                              {'counter': T.pretty(bad[0][1])[:300],
                               'conversions_at': sorted(set(e['where'] for e in convs))[:4]})
            else:
                ctx.holds(rule, fsite(f), 'calls / non_zero_calls / finite_calls of the returned result never pass '
                          'through a floating-point value')
        ctx.guard(rule, fsite(f), r7)
        n += 1
    ctx.count('functions building results from counters', n, 2)


def _shared(ctx):
    from . import C07
    from .common import Proxy, share
    share(ctx, 'C07', 'R6/C07.', ['R1.stored_bin'])
    # the value accumulated is f * weight with THE weight of the point: a lazily evaluated weight
    # must return the same number every time it is asked (shared with C01)
    share(ctx, 'C01', 'R6/C01.', ['R2.'])
    # under MPI the adjustment data stored with a result are the reduced data of THIS iteration whatever order the
    # compiler evaluates constructor arguments in (shared with C04)
    share(ctx, 'C04', 'R7/C04.', ['R6.evaluation_order', 'R6.adjustment_reduced', 'R6.reduced_result', 'R4.collectives_unconditional', 'R5.returned_buffer', 'R5.unpack'])


def algebra_equal(a, b):
    from .. import algebra
    return algebra.equal(a, b)


def counter_cells(this):
    """(non-zero increment, finite increment) extracted from the final object of invoke."""
    th = sym('this')
    out = {}
    for name in ('non_zero_calls_', 'finite_calls_'):
        v = fld(this, name)
        base = fld(th, name)
        # vector cell [0] or scalar
        if T.contains(v, lambda t: isinstance(t, tuple) and t[0] == 'vupd'):
            newv = sel(v, ZERO)
            old = sel(base, ZERO)
        else:
            newv, old = v, base
        out[name] = delta_plus(newv, old)
    return out['non_zero_calls_'], out['finite_calls_']


def counter_cell_names(this):
    th = sym('this')
    res = []
    for name in ('non_zero_calls_', 'finite_calls_'):
        v = fld(this, name)
        base = fld(th, name)
        if T.contains(v, lambda t: isinstance(t, tuple) and t[0] == 'vupd'):
            res.append(sel(base, ZERO))
        else:
            res.append(base)
    return res


def delta_plus(new, old):
    """new - old with ite distributed (new == old + d)."""
    if new == old:
        return ZERO
    if isinstance(new, tuple) and new[0] == '+' and new[1] == old:
        return new[2]
    if isinstance(new, tuple) and new[0] == 'ite':
        return ite(new[1], delta_plus(new[2], old), delta_plus(new[3], old))
    return sub(new, old)


def r6_vegas(ctx, f, s, ls, inv_effect):
    where = '%s:vegas_iteration' % ls.node.where()
    u = upd_by_final(ls, fld(s.ret, 'adjustment_data_'))
    if u is None:
        ctx.violation('R6.vegas', where, 'no adjustment data is accumulated in the per-call loop')
        return
    nxt = u['next']
    v = ('hcall', 'hep::accumulator::invoke', inv_effect['obj']) + tuple(inv_effect['args'])
    if not (isinstance(nxt, tuple) and nxt[0] == 'vscatter' and nxt[1] == u['pre']):
        ctx.violation('R6.vegas', where, 'adjustment data update is not a per-dimension '
                      'accumulation into one cell per dimension', {'next': T.pretty(nxt)[:600]})
        return
    _, pre, j, lo, hi, cells = nxt
    dims = fld(sym('pdf'), 'dimensions_')
    bins = fld(sym('pdf'), 'bins_')
    if (lo, hi) != (ZERO, dims) or len(cells) != 2:
        ctx.violation('R6.vegas', where, 'adjustment data is not updated for every dimension',
                      {'range': [T.pretty(lo), T.pretty(hi)]})
        return
    _, idx, g = cells[1]
    check_equal(ctx, 'R6.vegas_value', where, 'value added to the adjustment data (square of the '
                'value returned by invoke)', g, mul(v, v))
    # index = j*bins + bin[j] where bin[j] is the index stored by the point for dimension j
    binj = None
    pt = inv_effect['args'][1]
    # the point's bin vector after construction
    ptb = fld(inv_effect['args'][1], 'bin_')
    vb = upd_by_loc(ls, ptb[1]) if isinstance(ptb, tuple) and ptb and ptb[0] == 'ref' else None
    if vb is None:
        raise AnalysisBroken('cannot find the bin vector written by the point')
    bin_after = T.subst(vb['next'], {})
    bj = T.sel(bin_after, j)
    check_equal(ctx, 'R6.vegas_index', where, 'cell index j*bins + point.bin()[j]', idx,
                add(mul(j, bins), bj))


def r6_multi(ctx, f, s, ls, inv_effect):
    where = '%s:multi_channel_iteration' % ls.node.where()
    u = upd_by_final(ls, fld(s.ret, 'adjustment_data_'))
    if u is None:
        ctx.violation('R6.multi', where, 'no adjustment data is accumulated in the per-call loop')
        return
    nxt = u['next']
    v = ('hcall', 'hep::accumulator::invoke', inv_effect['obj']) + tuple(inv_effect['args'])
    cw = sym('channel_weights')
    # next == ite(v == 0, pre, vmap(pre, j, 0, channels, pre[j] + dens[j]*v*v*w))
    if not (isinstance(nxt, tuple) and nxt[0] == 'ite'):
        ctx.violation('R6.multi', where, 'adjustment data update has an unexpected shape',
                      {'next': T.pretty(nxt)[:600]})
        return
    c, a, b = nxt[1], nxt[2], nxt[3]
    if c == ('==', v, ZERO) and a == u['pre']:
        upd = b
    elif c == ('!=', v, ZERO) and b == u['pre']:
        upd = a
    else:
        ctx.violation('R6.multi', where, 'adjustment data is not skipped exactly for zero values',
                      {'condition': T.pretty(c)[:300]})
        return
    if not (isinstance(upd, tuple) and upd[0] == 'vmap' and upd[1] == u['pre']
            and upd[3] == ZERO and upd[4] == T.size(cw)):
        ctx.violation('R6.multi', where, 'adjustment data is not updated for every channel',
                      {'update': T.pretty(upd)[:600]})
        return
    j = upd[2]
    body = upd[5]
    g = delta_plus(body, sel(u['pre'], j))
    # densities as left by the density evaluation of the map, weight of the point
    wt = None
    dens = None
    for e, l in flat_effects(s.effects):
        if e['kind'] == 'ucall' and e['args'] and e['args'][-1] == ('enum', 'calculate_densities'):
            uid = e['id']
            dens = ('uout', uid, 4)
            jac = ('ucall', uid, e['functor'])
    if dens is None:
        ctx.violation('R6.multi_value', where, 'the value added for channel j is not '
                      'p_j * (f*w)^2 * w: no density evaluation / point weight enters the update',
                      {'added': T.pretty(g)[:600]})
        return
    # total density: sum over all channels of alpha_j * p_j
    k = sym('k')
    tot = ('sum', k, ZERO, T.size(cw), mul(sel(cw, k), sel(dens, k)))
    w = div(jac, tot)
    check_equal(ctx, 'R6.multi_value', where, 'value added for channel j: p_j * (f*w)^2 * w',
                g, mul(sel(dens, j), mul(mul(v, v), w)))
