"""C12 - iterations run in order and stop only when the callback says so."""
from .. import terms as T
from .. import fpclass as fp
from ..terms import sym, add, mul, sub, div, ZERO, ONE, fld, sel, ite
from .common import *

DRV_OPAQUE = {'hep::plain_iteration', 'hep::vegas_iteration', 'hep::multi_channel_iteration',
              'hep::allreduce_result', 'hep::mpi_callback::operator()', 'hep::callback::operator()',
              'hep::chkpt_with_rng::add', 'hep::chkpt_with_rng::generator', 'hep::vegas_chkpt::pdf',
              'hep::vegas_chkpt::dimensions', 'hep::multi_channel_chkpt::channels',
              'hep::multi_channel_chkpt::channel_weights', 'hep::vegas_refine_pdf',
              'hep::multi_channel_refine_weights', 'hep::random_number_usage'}

CB_OPAQUE = {'hep::accumulate', 'hep::chi_square_dof', 'hep::multi_channel_summary',
             'hep::chkpt::serialize', 'hep::chkpt_with_rng::serialize', 'hep::vegas_chkpt::serialize',
             'hep::multi_channel_chkpt::serialize'}


def driver_shape(ctx, d, name):
    p = ctx.prog
    s, ex = summarise(p, d, opaque=DRV_OPAQUE)
    base = name.replace('hep::', '')
    kern = KERNEL_OF[name]
    effs = list(flat_effects(s.effects))

    def find(nm):
        return [(i, e, l) for i, (e, l) in enumerate(effs) if e['kind'] == 'hcall' and e['name'] == nm]
    kc = find(kern)
    ad = find('hep::chkpt_with_rng::add')
    cbname = 'hep::mpi_callback::operator()' if 'mpi' in name else 'hep::callback::operator()'
    cb = find(cbname)
    if not cb:
        # user supplied callback type: an opaque functor call on the parameter `callback`
        cb = [(i, e, l) for i, (e, l) in enumerate(effs) if e['kind'] == 'ucall']
    where = fsite(d)
    if len(kc) != 1 or len(ad) != 1 or len(cb) != 1:
        ctx.violation('R1.once', where, 'per iteration the driver must run the kernel, add the result '
                      'and call the callback exactly once each (found %d / %d / %d)'
                      % (len(kc), len(ad), len(cb)))
        return
    (ik, ke, kl), (ia, ae, al), (ic, ce, cl) = kc[0], ad[0], cb[0]
    if not (len(kl) == len(al) == len(cl) == 1 and kl[0] is al[0] is cl[0]):
        ctx.violation('R1.once', where, 'kernel, chkpt.add and callback are not in the same single loop')
        return
    lp = kl[0]
    ls = s.loops[lp['loop']]
    lw = '%s:%s' % (ls.node.where(), base)
    # in order over the list of calls
    calls_list = calls_list_term(d)
    if lp['lo'] is None or lp['hi'] is None:
        raise AnalysisBroken('%s: the iteration loop of %s is not a counting loop this analysis recognises '
                             '(range-for, index or iterator loop over the list of calls)' % (lw, base))
    if lp['lo'] == ZERO and lp['hi'] == T.size(calls_list):
        ctx.holds('R1.in_order', lw, 'the loop runs over positions 0 .. |iteration_calls| in order (%s)'
                  % ls.node.op)
    else:
        ctx.violation('R1.in_order', lw, 'the iteration loop does not run over iteration_calls in order',
                      {'lo': T.pretty(lp['lo']), 'hi': T.pretty(lp['hi']), 'kind': ls.node.op})
    if ke['pc'] or ae['pc'] or ce['pc']:
        ctx.violation('R1.unconditional', lw, 'kernel / add / callback are conditional inside the loop',
                      {'kernel': T.pretty(T.conj(ke['pc']))[:200], 'add': T.pretty(T.conj(ae['pc']))[:200],
                       'callback': T.pretty(T.conj(ce['pc']))[:200]})
    elif not (ik < ia < ic):
        ctx.violation('R1.order', lw, 'order must be kernel -> chkpt.add -> callback',
                      {'positions': [ik, ia, ic]})
    else:
        ctx.holds('R1.order', lw, 'kernel, then chkpt.add(result, generator), then one callback call, '
                  'all unconditional')
    # the kernel is asked for the requested number of calls
    kcalls = ke['args'][1]
    Nk = sel(calls_list, lp['idx'])
    if 'mpi' not in name:
        if kcalls == Nk:
            ctx.holds('R1.requested_calls', lw, 'iteration k runs with iteration_calls[k] calls')
        else:
            ctx.violation('R1.requested_calls', lw, 'iteration k does not run with the requested number of '
                          'calls iteration_calls[k]', {'calls': T.pretty(kcalls)[:200]})
    # the callback sees the checkpoint that was just extended
    cb_arg = ce['args'][-1]
    added = ('hmut', 'hep::chkpt_with_rng::add', ae['obj'])
    if isinstance(cb_arg, tuple) and cb_arg[:3] == added and ae['obj'] == ('pre', ls.id, 'chkpt'):
        ctx.holds('R1.callback_arg', '%s:%s' % (ce['where'], base), 'callback receives the checkpoint '
                  'right after add (exactly the results so far)')
    else:
        ctx.violation('R1.callback_arg', '%s:%s' % (ce['where'], base), 'callback does not receive '
                      'the checkpoint that was just extended', {'argument': T.pretty(cb_arg)[:400]})
    # exits: break iff the callback returned false; nothing else leaves the loop
    cbres = ('hcall', cbname, ce.get('obj')) + tuple(ce['args']) if ce['kind'] == 'hcall' else \
        ('ucall', ce['id'], ce['functor'])
    want_brk = (T.lnot(('truth', cbres)),)
    # leaving by `break` or by returning the checkpoint from inside the loop are the same exit
    brks = [x for x in ls.exits if x[0] == 'brk' or (x[0] == 'ret' and x[2] == cb_arg)]
    others = [x for x in ls.exits if x[0] not in ('brk', 'fall', 'cont') and x not in brks]
    falls = [x for x in ls.exits if x[0] in ('fall', 'cont')]
    ok = len(brks) == 1 and norm_pc(brks[0][1]) == norm_pc(want_brk) and not others and \
        all(norm_pc(x[1]) == norm_pc((('truth', cbres),)) for x in falls)
    if ok:
        ctx.holds('R1.stop_iff_false', lw, 'the loop is left early iff the callback returned false')
    else:
        ctx.violation('R1.stop_iff_false', lw, 'the loop is not left exactly when the callback '
                      'returns false', {'exits': [(x[0], T.pretty(T.conj(x[1]))[:300]) for x in ls.exits]})
    # chkpt must not be modified after the callback inside the loop, and is what is returned
    u = ls.updates.get('chkpt')
    if u is None or u['next'] != cb_arg:
        ctx.violation('R1.returned', lw, 'the checkpoint is modified after the callback saw it',
                      {'next': T.pretty(u['next'])[:300] if u else None})
    elif s.ret != u['final'] and not (isinstance(s.ret, tuple) and s.ret[0] == 'ite' and
                                      {s.ret[2], s.ret[3]} == {u['final'], cb_arg} and
                                      any(x[0] == 'ret' for x in brks)):
        ctx.violation('R1.returned', where, 'the driver does not return the checkpoint it maintained',
                      {'returned': T.pretty(s.ret)[:300]})
    else:
        ctx.holds('R1.returned', where, 'the driver returns the checkpoint handed to the last callback')


def callback_parameters_stored(ctx):
    """callback(mode, filename, target_rel_err) stores its three arguments in the members the decision and the
    writer read, and mpi_callback hands all three to the callback it wraps: a dropped argument falls back to the
    default (target 0 = never stop on precision) without any diagnostic"""
    p = ctx.prog
    n = 0
    for base, inner in (('hep::callback', None), ('hep::mpi_callback', 'callback_')):
        short_ = base.split('::')[-1]
        for c in [c for c in instances(p, '%s::%s' % (base, short_)) if not c.is_implicit and len(c.params) == 3]:
            n += 1
            ctx.analysed(c)

            def r(c=c, inner=inner):
                s, ex = summarise(p, c)
                obj = s.this if inner is None else fld(s.this, inner)
                want = {'mode_': sym(c.params[0].name), 'filename_': sym(c.params[1].name),
                        'target_rel_err_': sym(c.params[2].name)}
                bad = [(k, T.pretty(fld(obj, k))[:60]) for k, v in want.items() if fld(obj, k) != v]
                if bad:
                    ctx.violation('R6.parameters_stored', fsite(c), 'the constructor does not store / forward %s: the '
                                  'callback decides with a default instead of the value the user passed'
                                  % ', '.join(k for k, _ in bad), {'members': bad})
                else:
                    ctx.holds('R6.parameters_stored', fsite(c), 'mode, file name and target reach the members of the same role')
            ctx.guard('R6.parameters_stored', fsite(c), r)
    ctx.count('callback constructors', n, 2)


def check(ctx):
    p = ctx.prog
    # the callbacks decide with the mode, file name and target they were constructed with
    callback_parameters_stored(ctx)
    # no state survives from one call to the next in a function-local static
    no_static_state(ctx, 'state.no_static_locals')
    # all arithmetic behind this property happens in the numeric type T of the instantiation
    single_precision(ctx, 'prec.single_type', ['hep::callback::operator()'], 1)
    # no constructor of the classes this property computes with leaves a member indeterminate
    members_initialised(ctx, 'init.members', ['hep::callback', 'hep::mpi_callback'], 2)
    nd = 0
    for name in SERIAL_DRIVERS + MPI_DRIVERS:
        for d in instances(p, name):
            ctx.analysed(d)
            nd += 1
            ctx.guard('R1', fsite(d), lambda d=d, name=name: driver_shape(ctx, d, name))
    ctx.count('integrator drivers', nd, 12)

    # ---------------------------------------------------------------- R2/R3/R4 callback
    ncb = 0
    for f in instances(p, 'hep::callback::operator()'):
        ctx.analysed(f)
        ncb += 1

        def cbrule(f=f):
            s, ex = summarise(p, f, opaque=CB_OPAQUE)
            where = fsite(f)
            th = sym('this')
            target = fld(th, 'target_rel_err_')
            mode = fld(th, 'mode_')
            ret = s.ret
            if len(s.returns) != 1 and any(T.occurs(T.conj(pc), mode) for pc, v in s.returns):
                ctx.violation('R4.mode_independent', where, 'a return statement is control dependent '
                              'on the callback mode')
            if T.occurs(ret, mode) or T.occurs(ret, fld(th, 'filename_')):
                ctx.violation('R4.mode_independent', where, 'the stop decision depends on the mode '
                              'or the file name', {'decision': T.pretty(ret)[:500]})
            else:
                ctx.holds('R4.mode_independent', where, 'the returned decision does not depend on '
                          'mode_ / filename_')
            thr = [e for e, l in flat_effects(s.effects) if e['kind'] == 'throw']
            if thr:
                ctx.violation('R1.no_other_exit', where, 'the built-in callback can leave by an exception at %s: '
                              'the run ends without the callback having returned false' % thr[0]['where'],
                              {'condition': T.pretty(T.conj(thr[0]['pc']))[:200]})
            else:
                ctx.holds('R1.no_other_exit', where, 'the built-in callback has no throwing path of its own')
            # the combined result
            acc = [e for e, l in flat_effects(s.effects) if e['kind'] == 'hcall'
                   and e['name'] == 'hep::accumulate']
            if len(acc) < 1:
                # no combination of the checkpoint's results at all: whatever the decision is computed from (running
                # totals kept in the callback object, the last result only), a run resumed from a non-empty
                # checkpoint - which starts with a fresh callback - decides differently from the uninterrupted one
                own = sorted(set(t[2] for t in T.subterms(ret) if isinstance(t, tuple) and len(t) == 3 and t[0] == 'fld'
                                 and t[1] == th and t[2] != 'target_rel_err_'))
                ctx.violation('R3.all_results', where, 'the decision is not computed from a combination of all results '
                              'of the checkpoint (no hep::accumulate over chkpt.results())%s'
                              % (': it reads the callback\'s own members %s, which start empty in a resumed run' % own
                                 if own else ''), {'decision': T.pretty(ret)[:400]})
                return
            a = acc[0]
            results = fld(sym('chkpt'), 'results_')
            want_args = [('iter', results, ZERO), ('iter', results, T.size(results))]
            if a['args'] == want_args and a.get('targs', ('',))[0] == 'hep::weighted_with_variance':
                ctx.holds('R3.all_results', where, 'decision uses accumulate<weighted_with_variance> '
                          'over all results of the checkpoint')
            else:
                ctx.violation('R3.all_results', where, 'the decision is not based on the variance-'
                              'weighted combination of all results',
                              {'args': [T.pretty(x)[:200] for x in a['args']],
                               'accumulator': a.get('targs')})
            comb = ('hcall', 'hep::accumulate') + tuple(a['args'])
            # the decision must be a function of the target and of that combination only: in
            # particular not of state the callback object collected in earlier calls (a resumed run
            # starts with a fresh callback) and not of the last result alone
            foreign = []
            masked = T.subst(ret, {comb: sym('__combination__')})
            for t in T.subterms(masked):
                if isinstance(t, tuple) and t and t[0] == 'fld':
                    base_ = t
                    while isinstance(base_, tuple) and base_ and base_[0] in ('fld', 'sel'):
                        base_ = base_[1]
                    if base_ == sym('__combination__') or t == target:
                        continue
                    if base_ == sym('this') and t[1] == sym('this') and t[2] == 'target_rel_err_':
                        continue
                    if T.occurs(t, sym('__combination__')):
                        continue
                    if t not in foreign and not any(T.occurs(f_, t) for f_ in foreign):
                        foreign.append(t)
            foreign = [t for t in foreign if not any(o is not t and T.occurs(o, t) for o in foreign)]
            if a['pc'] != () or foreign:
                ctx.violation('R3.decision_from_checkpoint_only', where, 'the stop decision is not a function '
                              'of (target, variance-weighted combination of all results of the checkpoint): it '
                              'depends on %s' % (', '.join(T.pretty(t)[:80] for t in foreign[:4]) or
                                                 'a combination that is only computed under ' + T.pretty(T.conj(a['pc']))[:120]),
                              {'decision': T.pretty(ret)[:500],
                               'consequence': 'a run resumed from a checkpoint constructs a new callback and '
                               'decides differently from the uninterrupted run'})
                return
            ctx.holds('R3.decision_from_checkpoint_only', where, 'the decision depends only on the target and on '
                      'the combination of all results of the checkpoint handed in')
            from .C13 import value_of, variance_of
            val = value_of(p, comb)
            err = ('fn', 'sqrt', variance_of(p, comb))
            rel = div(err, ('fn', 'fabs', val))
            prims = [t for t in T.subterms(ret) if isinstance(t, tuple) and len(t) == 3 and t[0] == 'fld' and t[1] == comb]

            def declare_prims(env_):
                # members of the combination that the decision reads directly (a helper that recomputes the
                # relative error): any class; the call counters are positive integers (premise: calls >= 2)
                for t in prims:
                    if t not in env_.vals:
                        env_.vals[t] = fp.POS if t[2] in ('calls_',) else fp.TOP
                return env_
            # R2: target zero never stops, whatever the relative error is (NaN, 0, inf, ...)
            bad = []
            for crel in fp.ALL:
                env = declare_prims(fp.Env({target: fp.ZERO, rel: crel}))
                env.vals[err] = fp.TOP
                env.vals[val] = fp.TOP
                b = fp.evb(fp.resolve(ret, env), env) if not isinstance(ret, tuple) or ret[0] != 'bool' \
                    else fp.Result(fp.BT if ret[1] else fp.BF)
                if b.tainted:
                    raise AnalysisBroken('decision depends on a value without declared class: %s' % b.why)
                if b.cls != fp.BT:
                    bad.append('relative error %s -> continue in %s' % (fp.NAMES[crel], fp.showb(b.cls)))
            if bad:
                ctx.violation('R2.zero_target_never_stops', where, 'with target precision zero the '
                              'built-in callback can end the run: ' + bad[0],
                              {'abstract_counterexamples': bad, 'decision': T.pretty(ret)[:400]})
            else:
                ctx.holds('R2.zero_target_never_stops', where, 'target = 0: decision is `continue` '
                          'for every class of the relative error (NaN, 0, finite, inf)')
            # R3: positive target: continue iff rel > target.  Decided over the classes of the combined
            # error and value (rel = err/|val| is evaluated from them): wherever `rel > target` is
            # definite the decision must be the same; wherever it depends on magnitudes the decision
            # must depend on them too.  NaN relative errors with a positive target are left open.
            bad = []
            for cerr in (fp.ZERO, fp.POS, fp.PINF):
                for cval in (fp.NINF, fp.NEG, fp.ZERO, fp.POS, fp.PINF):
                    env = declare_prims(fp.Env({target: fp.POS, err: cerr, val: cval}))
                    want = fp.evb(('>', rel, target), env)
                    relc = fp.ev(rel, env)
                    if relc.cls & fp.NAN:
                        continue
                    b = fp.evb(ret, env)
                    if b.tainted or want.tainted:
                        raise AnalysisBroken('decision depends on a value without declared class: %s' % (b.why or want.why))
                    if b.cls != want.cls:
                        bad.append('error %s, value %s (relative error %s): decision %s but `rel > target` is %s'
                                   % (fp.NAMES[cerr], fp.NAMES[cval], fp.show(relc.cls), fp.showb(b.cls), fp.showb(want.cls)))
            # inside one class the comparison itself decides: if the decision is written in terms of the
            # relative error, assuming the comparison either way must fix the decision
            if T.occurs(ret, rel):
                for truth in (True, False):
                    env = fp.refine(('>', rel, target), declare_prims(fp.Env({target: fp.POS, rel: fp.FINITE | fp.PINF | fp.NINF})),
                                    truth)
                    env.vals[target] = fp.POS
                    b = fp.evb(ret, env)
                    if b.tainted:
                        raise AnalysisBroken('decision depends on a value without declared class: %s' % b.why)
                    if b.cls != (fp.BT if truth else fp.BF):
                        bad.append('assuming rel > target is %s the decision is %s'
                                   % (truth, fp.showb(b.cls)))
            if bad:
                ctx.violation('R3.positive_target', where, 'with a positive target the run does not '
                              'stop exactly when rel <= target: ' + bad[0], {'all': bad})
            else:
                ctx.holds('R3.positive_target', where, 'positive target: continue iff '
                          'error()/fabs(value()) of the combination > target')
        ctx.guard('R2', fsite(f), cbrule)
    ctx.count('callback::operator() instantiations', ncb, 3)

    nm = 0
    for f in instances(p, 'hep::mpi_callback::operator()'):
        ctx.analysed(f)
        nm += 1

        def mrule(f=f):
            s, ex = summarise(p, f, opaque={'hep::callback::operator()'})
            where = fsite(f)
            inner = [e for e, l in flat_effects(s.effects) if e['kind'] == 'hcall'
                     and e['name'] == 'hep::callback::operator()']
            once = bool(inner) and all(e['args'] == [sym(f.params[-1].name)] for e in inner) and \
                (exactly_one_path([e['pc'] for e in inner]) is True)
            if not once:
                ctx.violation('R4.mpi_same_decision', where, 'mpi_callback does not call the inner '
                              'callback exactly once on every path, on the checkpoint',
                              {'calls_under': [T.pretty(T.conj(e['pc']))[:120] for e in inner]})
                return
            r = s.ret
            if all(isinstance(x, tuple) and x and x[0] == 'hcall' and x[1] == 'hep::callback::operator()'
                   for x in ite_leaves(r)):
                ctx.holds('R4.mpi_same_decision', where, 'every rank returns the decision of the '
                          'inner callback on the (reduced) checkpoint')
            else:
                ctx.violation('R4.mpi_same_decision', where, 'the returned decision is not the inner '
                              'callback\'s decision', {'returned': T.pretty(r)[:300]})
        ctx.guard('R4', fsite(f), mrule)
    ctx.count('mpi_callback::operator() instantiations', nm, 3)
    # the decision is taken on the combination of all results: its formulas (and which results are
    # skipped) are part of when a run stops (shared with C13)
    from .common import share
    share(ctx, 'C13', 'R5/C13.', ['R1.', 'R4.order'])

