"""C14 - long sums do not lose accuracy with the number of calls (compensated summation)."""
from .. import terms as T
from .. import algebra
from .. import symex as SX
from ..terms import sym, add, sub, mul, idiv, ZERO, ONE, fld, sel, num
from .common import *

TH = sym('this')


def classify_summation(S1, C1, S, C, V):
    """Returns ('kahan'|'neumaier'|'plain'|None, detail).  Operands and signs are matched on the
    def-use terms (no algebraic simplification is applied by the summariser, so the order of the
    floating-point operations is preserved)."""
    Y = sub(V, C)
    Tt = add(S, Y)
    if S1 in (Tt, ('+', Y, S)) and C1 in (sub(sub(Tt, S), Y), sub(sub(('+', Y, S), S), Y)):
        return 'kahan', 'y = v - c; t = s + y; c = (t - s) - y; s = t'
    # Kahan-Babuska / Neumaier: t = s + v; c += |s| >= |v| ? (s - t) + v : (v - t) + s; s = t
    Tn = add(S, V)
    if S1 == Tn and isinstance(C1, tuple) and T.occurs(C1, C):
        a = add(sub(S, Tn), V)
        b = add(sub(V, Tn), S)
        if T.occurs(C1, a) and T.occurs(C1, b):
            return 'neumaier', 't = s + v; c += (|s| >= |v|) ? (s - t) + v : (v - t) + s; s = t'
    if S1 in (Tt, ('+', Y, S)):
        return 'broken-kahan', 'sum is updated as s + (v - c) but the compensation is %s instead of ' \
                               '(t - s) - y' % T.pretty(C1)[:200]
    if S1 in (add(S, V), ('+', V, S)) and (C1 == C or not T.occurs(S1, C)):
        return 'plain', 's += v'
    return None, 'sum := %s ; compensation := %s' % (T.pretty(S1)[:200], T.pretty(C1)[:200])


def check(ctx):
    p = ctx.prog
    # all arithmetic behind this property happens in the numeric type T of the instantiation
    single_precision(ctx, 'prec.single_type', ['hep::accumulate', 'hep::accumulator::'], 1)
    # no constructor of the classes this property computes with leaves a member indeterminate
    members_initialised(ctx, 'init.members', ['hep::accumulator'], 2)
    ctx.assume('Kahan 1965 / Higham, Accuracy and Stability of Numerical Algorithms, Thm 4.8: with '
               'compensated summation |error| <= (2u + O(n u^2)) * sum |x_i|; the bound itself is not '
               'decided, only the presence and integrity of the mechanism')
    accs = [f for f in instances(p, 'hep::accumulate') if len(f.params) == 4]
    ctx.count('accumulate(T&,T&,T&,T) definitions', len(accs), 1)
    for f in accs:
        ctx.analysed(f)

        def r1(f=f):
            s, ex = summarise(p, f)
            where = fsite(f)
            rl = accumulate_roles(p)
            names = [f.params[i].name for i in rl]
            S, Q, C, V = [sym(n) for n in names]
            S1 = ex.param_value(s, names[0])
            C1 = ex.param_value(s, names[2])
            kind, detail = classify_summation(S1, C1, S, C, V)
            if kind in ('kahan', 'neumaier'):
                ctx.holds('R1.compensated', where, 'first accumulator is updated by %s summation: %s'
                          % (kind, detail))
            elif kind == 'broken-kahan':
                ctx.violation('R1.compensated', where, 'Kahan summation is damaged: ' + detail +
                              ' (the rounding error of t = s + y is no longer fed back with the right sign '
                              'on every path)', {'sum': T.pretty(S1)[:200], 'compensation': T.pretty(C1)[:300]})
            elif kind == 'plain':
                ctx.violation('R1.compensated', where, 'the sum is accumulated by plain `s += v`: the '
                              'compensation term is not used, the error grows with the number of calls',
                              {'sum': T.pretty(S1)[:200], 'compensation': T.pretty(C1)[:200]})
            else:
                # a different recurrence: decide by the two necessary conditions of any compensated
                # scheme - over the reals the new sum is s + v - c and the new compensation is 0
                ok1, _ = algebra.equal(S1, sub(add(S, V), C))
                ok2, _ = algebra.equal(C1, ZERO)
                if ok1 and ok2 and T.occurs(S1, C):
                    raise AnalysisBroken('unrecognised compensated-summation family: ' + detail)
                ctx.violation('R1.compensated', where, 'the update of sum / compensation is not a '
                              'compensated summation (over the reals the compensation must vanish and the '
                              'sum must be s + v - c)', {'update': detail})
            for q in [f.params[i] for i in rl[:3]]:
                if not SX.is_mut_ref(q.type):
                    ctx.violation('R2.persistent_cells', where, 'parameter `%s` is not a non-const reference: '
                                  'the running sum / compensation does not persist between calls' % q.name)
        ctx.guard('R1', fsite(f), r1)

    # ---------------------------------------------------------------- R2 call sites: cells
    sites = []
    for name in ('hep::accumulator::invoke', 'hep::accumulator::add_to_1d_distribution',
                 'hep::accumulator::add_to_2d_distribution'):
        for f in instances(p, name):
            ctx.analysed(f)
            s, ex = summarise(p, f, opaque={'hep::accumulate'})
            for e, l in flat_effects(s.effects):
                if e['kind'] == 'hcall' and e['name'] == 'hep::accumulate':
                    sites.append((f, e))
    ctx.count('call sites of accumulate() (entry function, site)', len(set((f.qualname, e['where']) for f, e in sites)), 4)
    for f, e in sites:
        def r2(f=f, e=e):
            w = '%s:%s' % (e['where'], f.name)
            (sc, qc, cc, v), lvs = accumulate_args(p, e)
            # the three cells must be the accumulator's own storage (lvalues rooted in *this), not
            # copies held in locals: a compensation kept in a local does not survive the call
            for k_, nm in ((0, 'sum'), (1, 'sum of squares'), (2, 'compensation')):
                lv = lvs.get(k_)
                if lv is None or lv[1] != ('this', 'this') or not lv[2] or lv[2][0][0] != 'f':
                    ctx.violation('R2.persistent_cells', w, 'the %s handed to accumulate() is not an element of '
                                  'the accumulator\'s member storage (it is %s): the running value is updated '
                                  'on a copy and lost after the call' % (nm, 'a local object' if lv is not None else 'a temporary'),
                                  {'lvalue': str(lv)})
                    return
            for nm, cell in (('sum', sc), ('sum of squares', qc), ('compensation', cc)):
                if not (isinstance(cell, tuple) and cell[0] == 'sel' and cell[1][0] == 'fld' and cell[1][1] == TH):
                    ctx.violation('R2.persistent_cells', w, 'the %s cell is not member storage of the '
                                  'accumulator: it does not persist across calls' % nm,
                                  {'cell': T.pretty(cell)[:200]})
                    return
            if len({sc, qc, cc}) != 3:
                ctx.violation('R2.distinct_cells', w, 'sum, sum of squares and compensation alias each other')
                return
            # compensation cell is an injective function of the sum cell
            if sc[1] == fld(TH, 'sums_') and cc[1] == fld(TH, 'compensations_'):
                ok, wit = algebra.equal(cc[2], idiv(sc[2], num(2)))
                ok2, _ = algebra.equal(qc[2], add(sc[2], ONE))
                if ok and ok2:
                    ctx.holds('R2.distinct_cells', w, 'sum at even index i, squares at i+1, compensation at '
                              'i/2: one compensation cell per accumulated quantity')
                else:
                    ctx.violation('R2.distinct_cells', w, 'the compensation cell is not the one belonging to '
                                  'this sum (index i/2 for the sum at even index i)',
                                  {'sum': T.pretty(sc[2])[:160], 'compensation': T.pretty(cc[2])[:160]})
            elif sc[1] == cc[1]:
                idx = sorted([sc[2], qc[2], cc[2]], key=repr)
                if all(T.is_num(i) for i in idx) and len(set(idx)) == 3:
                    ctx.holds('R2.distinct_cells', w, 'sum, squares and compensation are three distinct '
                              'fixed cells of the same array')
                else:
                    ctx.violation('R2.distinct_cells', w, 'cells of the same array are not provably distinct')
            else:
                ctx.holds('R2.distinct_cells', w, 'sum and compensation live in different containers')
        ctx.guard('R2', '%s:%s' % (e['where'], f.name), r2)

    # compensation storage: zero-initialised, written only through accumulate
    recs = {}
    for f, e in sites:
        recs[f.record.qualname] = f.record
    for rec in recs.values():
        def r2b(rec=rec):
            comp_member = 'compensations_' if any(fl['name'] == 'compensations_' for fl in rec.fields) else 'sums_'
            ctors = [c for c in rec.methods if c.kind == 'ctor' and not c.is_implicit and c.body is not None and not c.is_pattern]
            for c in ctors:
                s, ex = summarise(p, c)
                v = fld(s.this, comp_member)
                zero = isinstance(v, tuple) and v[0] in ('vzeros',) or \
                    (isinstance(v, tuple) and v[0] == 'vresize' and v[1] == T.vempty()) or \
                    (isinstance(v, tuple) and v[0] == 'vlist' and len(v) > 1 and all(x == T.ZERO for x in v[1:])) or \
                    (isinstance(v, tuple) and v[0] == 'vfill' and v[2] == T.ZERO)
                if zero:
                    ctx.holds('R2.zero_initialised', fsite(c), '%s starts as zeros' % comp_member)
                else:
                    ctx.violation('R2.zero_initialised', fsite(c), 'the compensation storage %s is not '
                                  'zero-initialised' % comp_member, {'value': T.pretty(v)[:200]})
            for m in rec.methods:
                if m.kind != 'method' or m.body is None or m.is_pattern or m.is_implicit:
                    continue
                s, ex = summarise(p, m, opaque={'hep::accumulate'})
                v = fld(s.this, comp_member)
                base = fld(TH, comp_member)
                if v == base:
                    continue
                # every written cell must be an output of accumulate()
                ok = True
                core = v
                guard_ = 0
                while isinstance(core, tuple) and core and core[0] in ('vupd', 'ite') and guard_ < 50:
                    guard_ += 1
                    core = core[1] if core[0] == 'vupd' else (core[2] if core[3] == base else core[3])
                if core != base:
                    ok = False
                for t in T.subterms(v):
                    if isinstance(t, tuple) and t and t[0] == 'vupd':
                        x = t[3]
                        leaves = [x]
                        while leaves:
                            y = leaves.pop()
                            if isinstance(y, tuple) and y and y[0] == 'ite':
                                leaves += [y[2], y[3]]
                            elif isinstance(y, tuple) and y and y[0] == 'hout' and y[1] == 'hep::accumulate':
                                continue
                            elif isinstance(y, tuple) and y and y[0] == 'sel':
                                continue
                            else:
                                ok = False
                if ok:
                    ctx.holds('R2.written_only_by_accumulate', fsite(m), '%s is only written through '
                              'accumulate()' % comp_member)
                else:
                    ctx.violation('R2.written_only_by_accumulate', fsite(m), 'the compensation storage is '
                                  'modified outside accumulate()', {'after': T.pretty(v)[:300]})
        ctx.guard('R2.storage', rec.qualname, r2b)

    # ---------------------------------------------------------------- R3 build flags
    def r3():
        if p.unsafe_flags:
            ctx.violation('R3.no_unsafe_math', 'meson.build', 'the build enables value-unsafe floating-point '
                          'optimisation (%s): the compiler may cancel (t - s) - y algebraically'
                          % ', '.join(p.unsafe_flags))
        else:
            ctx.holds('R3.no_unsafe_math', 'meson.build', 'no -ffast-math / -Ofast / -fassociative-math / '
                      '-funsafe-math-optimizations in the build description')
    ctx.guard('R3', 'meson.build', r3)
    # the compensated sums must reach the reported result unchanged: result() reports the cell
    # scaled by the bin size and nothing else (shared with C02 / C11)
    from .common import share
    share(ctx, 'C02', 'R4/C02.', ['R5.', 'R2.', 'R7.counters_stay_integers'])
    # the compensated sums of the ranks are merged in the numeric type T (no detour through double)
    single_precision(ctx, 'prec.reduction_type', ['hep::allreduce_result'], 1)
    share(ctx, 'C04', 'R5/C04.', ['R4.collectives_unconditional', 'R5.datatype'])
    share(ctx, 'C11', 'R4/C11.', ['R4.bin_sum', 'R1.cell_storage', 'R1.storage'])

