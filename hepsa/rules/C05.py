"""C05 - the checkpoint text format is lossless (engine E4, DESIGN.md section 4, C05)."""
from .. import terms as T
from .. import algebra, sergram, ir
from ..sergram import SERIALISED
from ..terms import sym, add, mul, sub, ZERO, ONE, fld, sel
from .common import *

TH = sym('this')

# members that are deliberately not part of the text format, with the obligation that makes this
# lossless (discharged by the rule named)
TRANSIENT = {
    'hep::vegas_chkpt': {'bins_': 'only read by dimensions() while there is neither a grid nor a result; '
                                  'a checkpoint that was written always has one of them (C15/R3 decides '
                                  'that no reachable state reads it uninitialised)'},
}
# element counts that the reader derives from other fields: equation size(member) = expr(fields),
# each backed by an invariant rule
IMPLICIT_COUNTS = {
    ('hep::vegas_pdf', 'x'): lambda: mul(add(fld(TH, 'bins_'), ONE), fld(TH, 'dimensions_')),
    ('hep::vegas_result', 'adjustment_data_'):
        lambda: mul(fld(fld(TH, 'pdf_'), 'bins_'), fld(fld(TH, 'pdf_'), 'dimensions_')),
    ('hep::distribution_result', 'results_'):
        lambda: mul(fld(fld(TH, 'parameters_'), 'bins_x_'), fld(fld(TH, 'parameters_'), 'bins_y_')),
    ('hep::chkpt_with_rng', 'generators_'): lambda: add(T.size(fld(TH, 'results_')), ONE),
}


def data(items):
    return [i for i in items if i.k in ('field', 'sub', 'loop', 'read', 'getline', 'other')]


def wobj_label(obj):
    if isinstance(obj, tuple) and obj:
        if obj[0] == 'obj' and obj[2] == TH:
            return '<base>'
        if obj[0] == 'fld' and obj[1] == TH:
            return obj[2]
        if obj[0] == 'sel':
            return wobj_label(obj[1])
    return None


def norm_ctype(t):
    t = ir.strip_cvref(t or '')
    return t.replace('std::size_t', 'unsigned long')


class Matcher:
    def __init__(self, ctx, g, grams):
        self.ctx = ctx
        self.g = g
        self.grams = grams
        self.bind = {}       # reader term -> writer term
        self.pairs = 0
        self.base = g.base.replace('hep::', '')

    def rsub(self, t):
        """reader-side term expressed in writer terms"""
        t = T.subst(t, self.bind)
        # tokens read into locals: input(tok, label)
        m = {}
        members = set(f['name'] for f in self.g.record.fields)
        for s_ in T.subterms(t):
            if isinstance(s_, tuple) and s_ and s_[0] == 'input' and len(s_) > 2:
                if ('local', s_[2]) in self.bind:
                    m[s_] = self.bind[('local', s_[2])]
                elif s_[2] in members:
                    m[s_] = fld(TH, s_[2])
        return T.subst(t, m) if m else t

    def site(self, it):
        return '%s:%s' % (it.where, self.base)

    def element_in_order(self, w, term, widx, wlo):
        """inside a writer loop the k-th iteration must emit element k of the member it walks over (the reader
        restores the elements in the order of the text): `out << generators_.back()` n times has the right
        count and the right type but stores one generator n times"""
        if widx is None or not (isinstance(term, tuple) and term and term[0] == 'sel'):
            return True
        if not T.occurs(term[1], TH):
            return True
        want = widx if wlo in (None, ZERO) else sub(widx, wlo)
        if T.canon(term[2]) == T.canon(want):
            return True
        self.ctx.violation('i.element_order', self.site(w), 'iteration %s of the writer loop does not emit element %s of '
                           '%s but element %s: the reader restores the elements in text order'
                           % (T.pretty(widx), T.pretty(want), wobj_label(term) or T.pretty(term[1])[:60],
                              T.pretty(term[2])[:80]), {'writer_item': repr(w)})
        return False

    def match(self, W, R, widx=None, ridx=None, wlo=None):
        ctx = self.ctx
        Wd, Rd = data(W), data(R)
        n = max(len(Wd), len(Rd))
        for k in range(n):
            w = Wd[k] if k < len(Wd) else None
            r = Rd[k] if k < len(Rd) else None
            if w is None or r is None:
                it = w or r
                ctx.violation('i.sequence', self.site(it), 'the %s has an item without counterpart on the '
                              'other side: %r' % ('writer' if w else 'reader', it))
                return
            self.pairs += 1
            if w.k == 'other' or r.k == 'other':
                raise AnalysisBroken('unrecognised stream operation at %s' % (w.where if w.k == 'other' else r.where))
            # conditions must agree
            wpc = T.conj(w.pc)
            rpc = self.rsub(T.conj(r.pc))
            if wpc != rpc:
                ctx.violation('v.conditions', self.site(w), 'item is written under %s but read under %s'
                              % (T.pretty(wpc)[:200], T.pretty(rpc)[:200]),
                              {'writer': repr(w), 'reader': repr(r)})
            if w.k == 'field' and r.k in ('read', 'getline'):
                if w.istext != (r.k == 'getline'):
                    ctx.violation('i.sequence', self.site(w), 'text / token mismatch: writer %r, reader %r' % (w, r))
                    continue
                if not self.element_in_order(w, w.term, widx, wlo):
                    continue
                if r.k == 'read' and r.member is None:
                    self.bind[('local', r.local)] = w.term
                    if norm_ctype(w.ctype) != norm_ctype(r.ctype):
                        ctx.violation('i.types', self.site(w), 'written as %s, read as %s' % (w.ctype, r.ctype))
                    else:
                        ctx.holds('i.sequence', self.site(w), 'count/token %s <-> local `%s`' % (T.pretty(w.term)[:60], r.local))
                    continue
                wl = w.label
                if wl is None or wl.replace('[]', '') != (r.member or '').replace('[]', '') or \
                        wl.count('[]') != (r.member or '').count('[]'):
                    ctx.violation('i.sequence', self.site(w), 'field order differs: the writer emits %s '
                                  'where the reader expects %s' % (wl or T.pretty(w.term)[:80], r.member),
                                  {'writer_item': repr(w), 'reader_item': repr(r)})
                    continue
                if r.k == 'read' and norm_ctype(w.ctype) != norm_ctype(r.ctype):
                    ctx.violation('i.types', self.site(w), 'member %s written as %s, read as %s'
                                  % (wl, w.ctype, r.ctype))
                    continue
                # element index agreement for vector elements
                if '[]' in wl and widx is not None and ridx is not None:
                    wi = w.term[2]
                    ri = None
                    if r.lv is not None:
                        steps = [s for s in r.lv[2] if s[0] == 'i']
                        ri = steps[-1][1] if steps else None
                    if ri is not None and T.subst(ri, {ridx: widx}) != wi:
                        ctx.violation('i.sequence', self.site(w), 'element order differs for %s' % wl,
                                      {'writer_index': T.pretty(wi), 'reader_index': T.pretty(ri)})
                        continue
                ctx.holds('i.sequence', self.site(w), 'member %s written and read at the same position, same type' % wl)
            elif w.k == 'sub' and r.k == 'sub':
                if not self.element_in_order(w, w.obj, widx, wlo):
                    continue
                wl = wobj_label(w.obj)
                rl = r.target
                if rl is not None:
                    rl = rl.split('.')[0]
                if rl != wl and r.result is not None and self.g.rthis is not None and \
                        not any(fd['name'] == rl for fd in self.g.record.fields):
                    # constructed into a local container that is handed over to a member at the end:
                    # the sub-object belongs to the member its value flows into
                    flows = [fd['name'] for fd in self.g.record.fields
                             if T.occurs(fld(self.g.rthis, fd['name']), r.result)]
                    if len(flows) == 1:
                        rl = flows[0]
                if w.cls != r.cls or wl != rl:
                    ctx.violation('i.sequence', self.site(w), 'sub-object order differs: writer %s of %s, '
                                  'reader %s of %s' % (wl, w.cls, rl, r.cls))
                    continue
                if r.result is not None:
                    self.bind[r.result] = TH if wl == '<base>' else fld(TH, wl)
                ctx.holds('i.sequence', self.site(w), 'sub-object %s (%s) at the same position' % (wl, w.cls.replace('hep::', '')))
            elif w.k == 'loop' and r.k == 'loop':
                cw = sub(w.hi, w.lo)
                cr = self.rsub(sub(r.hi, r.lo))
                ok, _ = algebra.equal(cw, cr)
                how = 'explicit count'
                if not ok:
                    # implicit count: use the size equation of the member the writer iterates over
                    lab = label_of_size(cw)
                    eq = IMPLICIT_COUNTS.get((self.g.base, lab)) if lab else None
                    if eq is not None:
                        ok, _ = algebra.equal(eq(), cr)
                        how = 'implicit count backed by the size invariant of %s' % lab
                if not ok:
                    ctx.violation('i.loop_counts', self.site(w), 'the writer emits %s elements, the reader '
                                  'extracts %s' % (T.pretty(cw)[:120], T.pretty(cr)[:160]))
                    continue
                ctx.holds('i.loop_counts', self.site(w), 'loop counts agree (%s)' % how)
                self.match(w.body, r.body, w.idx, r.idx, w.lo)
            else:
                ctx.violation('i.sequence', self.site(w), 'writer item %r faces reader item %r' % (w, r))


def label_of_size(t):
    if isinstance(t, tuple) and t and t[0] == 'size':
        l = sergram.label_of(t[1])
        return l
    if isinstance(t, tuple) and t and t[0] == '-' and t[2] == ZERO:
        return label_of_size(t[1])
    return None


def starts_with_text(cls, grams, depth=0):
    g = grams.get(cls)
    if g is None or depth > 6:
        return False
    for it in g.writer:
        if it.k in ('fmt',):
            continue
        if it.k == 'lit':
            return False
        if it.k == 'field':
            return it.istext
        if it.k == 'sub':
            return starts_with_text(it.cls, grams, depth + 1)
        return False
    return False


def check(ctx):
    p = ctx.prog
    # calls through base-class references reach the derived implementation
    no_hiding_in_hierarchy(ctx, 'dyn.overrides_are_virtual')
    ctx.assume('operator<< / operator>> of the standard engines and of arithmetic types round-trip '
               'when floating-point values are written in scientific notation with max_digits10 '
               'significant digits (standard guarantee); names contain no newline (property premise)')
    grams = {}
    insts = {}
    for base in SERIALISED:
        try:
            grams[base] = sergram.extract(p, base)
        except AnalysisBroken as e:
            ctx.broken('extract', base, str(e))
    ctx.count('writer/reader class pairs', len(grams), 11)
    # all instantiations of the checkpoint templates
    extra = []
    for base in ('hep::chkpt', 'hep::chkpt_with_rng'):
        for f in p.find(base + '::serialize'):
            if f is grams[base].wfunc:
                continue
            try:
                extra.append(sergram.extract(p, base, pick=lambda x, f=f: x.record is f.record))
            except AnalysisBroken as e:
                ctx.broken('extract', f.qualname[:80], str(e))
    nfloat = [0]
    for g in list(grams.values()) + extra:
        ctx.analysed(g.wfunc)
        ctx.analysed(g.rfunc)
        base = g.base.replace('hep::', '')
        wsite = fsite(g.wfunc)

        # (i) + (v): sequences, counts, conditions
        def r_match(g=g):
            m = Matcher(ctx, g, grams)
            m.match(g.writer, g.reader)
        ctx.guard('i.sequence', wsite, r_match)

        # (ii) separators
        def r_sep(g=g):
            bad = sergram.separator_violations(g.writer, grams)
            if bad:
                for a, b in bad[:4]:
                    ctx.violation('ii.separator', '%s:%s' % (getattr(b, 'where', '?'), base),
                                  'two tokens are written without whitespace in between: %r then %r' % (a, b))
            else:
                ctx.holds('ii.separator', wsite, 'every pair of consecutive tokens is separated by a '
                          'whitespace literal (loops taken twice and skipped, sub-objects expanded)')
        ctx.guard('ii.separator', wsite, r_sep)

        # (ii-b) exactly one newline between a token and a free-text field that follows it
        def r_textsep(g=g):
            bad = sergram.text_separator_violations(g.writer, grams)
            if bad:
                a_, b_, p_ = bad[0]
                ctx.violation('ii.text_separator', '%s:%s' % (getattr(b_, 'where', '?'), base), 'the free-text field %s is '
                              'separated from the token written before it (at %s) by %r instead of exactly one newline: '
                              'getline takes an empty / wrong line as the text and everything after it is shifted'
                              % (getattr(b_, 'label', None) or '?', getattr(a_, 'where', '?'), p_),
                              {'abstract_counterexample': 'a result with two distributions: the second name is read as ""'})
            else:
                ctx.holds('ii.text_separator', wsite, 'every free-text field follows the previous token after exactly one newline')
        ctx.guard('ii.text_separator', wsite, r_textsep)

        # (iii) floating-point format state
        def r_fmt(g=g):
            probs = []
            count = [0]

            def report(it, state):
                count[0] += 1
                nfloat[0] += 1
                w = '%s:%s' % (it.where, base)
                notation, prec = state
                if notation != 'scientific':
                    ctx.violation('iii.float_format', w, 'floating-point member %s is written in %s '
                                  'notation (entry state of serialize() is unknown; no std::scientific '
                                  'dominates this field)' % (it.label, notation))
                    return
                okp = False
                detail = T.pretty(prec)[:200] if prec is not None else 'unknown'
                if isinstance(prec, tuple) and prec[0] == '-' and prec[2] == ONE and \
                        isinstance(prec[1], tuple) and prec[1][0] == 'const':
                    names = str(prec[1][1]).split('::')[-1].split('|')
                    want = 'nl_%s_max_digits10' % norm_ctype(it.ctype).replace(' ', '_')
                    okp = want in names
                if okp:
                    ctx.holds('iii.float_format', w, '%s (%s): scientific, precision max_digits10-1 of %s'
                              % (it.label, it.ctype, it.ctype))
                else:
                    ctx.violation('iii.float_format', w, 'floating-point member %s of type %s is written '
                                  'with precision %s instead of numeric_limits<%s>::max_digits10 - 1: '
                                  'not every value round-trips' % (it.label, it.ctype, detail, it.ctype))
            sergram.fmt_flow(g.writer, grams, sergram.UNKNOWN, report, {})
        ctx.guard('iii.float_format', wsite, r_fmt)

        # (iv) free text
        def r_text(g=g):
            R = g.reader
            for k, it in enumerate(R):
                if it.k == 'getline':
                    prev = R[k - 1] if k > 0 else None
                    w = '%s:%s' % (it.where, base)
                    if prev is not None and prev.k == 'skipws':
                        ctx.violation('iv.free_text', w, 'the reader skips whitespace in front of the '
                                      'free-text member %s: the empty name (default of make_dist_params) '
                                      'and names with leading blanks cannot be read back' % it.member,
                                      {'abstract_counterexample': 'name "" -> getline(in >> std::ws, name) '
                                       'swallows the following parameter line as the name'})
                    else:
                        ctx.holds('iv.free_text', w, 'getline returns every newline-free string the writer can emit')
            # tokens of class type (random number engines): the library's operator>> need not skip
            # leading whitespace (libstdc++'s linear_congruential_engine clears skipws), so the
            # reader must consume the separator the writer emits in front of the token itself
            def class_tokens(items):
                for k, it in enumerate(items):
                    if it.k == 'loop':
                        class_tokens(it.body)
                    elif it.k == 'read' and not ir.is_int_type(it.ctype) and not ir.is_float_type(it.ctype) \
                            and 'basic_string' not in it.ctype:
                        prev = items[k - 1] if k > 0 else None
                        w = '%s:%s' % (it.where, base)
                        if prev is not None and prev.k in ('skipws', 'ignore', 'get'):
                            ctx.holds('iv.class_token_separator', w, 'whitespace in front of the %s token is '
                                      'consumed explicitly before operator>> of the class type runs'
                                      % (it.member or it.local))
                        else:
                            ctx.violation('iv.class_token_separator', w, 'a token of class type (%s) is extracted '
                                          'with the library\'s operator>> directly after a whitespace separator: '
                                          'that operator need not skip leading whitespace' % it.ctype[:60],
                                          {'abstract_counterexample': 'Engine = std::minstd_rand / minstd_rand0 / '
                                           'knuth_b with libstdc++: operator>> sets flags(ios_base::dec), which '
                                           'clears skipws; the newline written in front of every generator makes '
                                           'the extraction fail and the checkpoint cannot be read back'})
            class_tokens(R)
            W = g.writer
            for k, it in enumerate(W):
                if it.k == 'field' and it.istext:
                    nxt = W[k + 1] if k + 1 < len(W) else None
                    w = '%s:%s' % (it.where, base)
                    if nxt is None or nxt.k != 'lit' or not str(nxt.text).startswith('\n'):
                        ctx.violation('iv.free_text', w, 'the free-text member %s is not terminated by a '
                                      'newline: getline cannot find its end' % it.label)
                    else:
                        ctx.holds('iv.free_text', w, 'free-text member terminated by \'\\n\'')
                # separator ownership: ws literal directly in front of a sub-object starting with text
                if it.k == 'sub' and sergram and starts_with_text(it.cls, grams):
                    prev = W[k - 1] if k > 0 else None
                    if prev is not None and prev.k == 'lit' and prev.ws:
                        # the reader of THIS class must consume that literal before the sub-object
                        rs = [(j, r) for j, r in enumerate(R if not it.pc else R) if r.k == 'sub' and r.cls == it.cls]
                        rs += [(j, r) for lp in R if lp.k == 'loop' for j, r in enumerate(lp.body)
                               if r.k == 'sub' and r.cls == it.cls]
                        body = R
                        for lp in R:
                            if lp.k == 'loop' and any(r.k == 'sub' and r.cls == it.cls for r in lp.body):
                                body = lp.body
                        idx = [j for j, r in enumerate(body) if r.k == 'sub' and r.cls == it.cls]
                        w = '%s:%s' % (prev.where, base)
                        ok = False
                        if idx:
                            j = idx[0]
                            pv = body[j - 1] if j > 0 else None
                            ok = pv is not None and pv.k == 'ignore' and pv.delim == prev.text[-1:]
                        if ok:
                            ctx.holds('iv.separator_owner', w, 'the separator written in front of the '
                                      'free text of %s is consumed by this class\'s reader' % it.cls.replace('hep::', ''))
                        else:
                            ctx.violation('iv.separator_owner', w, 'this writer emits %r directly in front of '
                                          'the free-text field of a %s, but its reader does not consume it: '
                                          'either the name reader must skip whitespace (losing empty / '
                                          'blank-leading names) or the name absorbs the separator'
                                          % (prev.text, it.cls.replace('hep::', '')))
            for lp in W:
                if lp.k == 'loop':
                    for k, it in enumerate(lp.body):
                        if it.k == 'sub' and starts_with_text(it.cls, grams):
                            prev = lp.body[k - 1] if k > 0 else None
                            if prev is not None and prev.k == 'lit' and prev.ws:
                                body = None
                                for rl in R:
                                    if rl.k == 'loop' and any(r.k == 'sub' and r.cls == it.cls for r in rl.body):
                                        body = rl.body
                                w = '%s:%s' % (prev.where, base)
                                ok = False
                                if body is not None:
                                    idx = [j for j, r in enumerate(body) if r.k == 'sub' and r.cls == it.cls]
                                    j = idx[0]
                                    pv = body[j - 1] if j > 0 else None
                                    ok = pv is not None and pv.k == 'ignore' and pv.delim == prev.text[-1:]
                                if ok:
                                    ctx.holds('iv.separator_owner', w, 'the separator written in front of each '
                                              '%s (which starts with free text) is consumed by this class\'s '
                                              'reader' % it.cls.replace('hep::', ''))
                                else:
                                    ctx.violation('iv.separator_owner', w, 'this writer emits %r directly in '
                                                  'front of each %s, whose text starts with a free-text name, '
                                                  'but its reader does not consume that separator: the name '
                                                  'reader has to skip whitespace and cannot return empty or '
                                                  'blank-leading names' % (prev.text, it.cls.replace('hep::', '')),
                                                  {'abstract_counterexample': 'distribution name "" (default of '
                                                   'make_dist_params): reload reads the parameter line as the name'})
        ctx.guard('iv.free_text', wsite, r_text)

        # (vi) every member is written and read (own members of the class only)
        def r_members(g=g):
            rec = g.record
            wl = set()
            rl = set()

            def collect_w(items):
                for it in items:
                    if it.k == 'field' and it.label:
                        wl.add(it.label.replace('[]', '').lstrip('#'))
                    elif it.k == 'sub':
                        l = wobj_label(it.obj)
                        if l:
                            wl.add(l)
                    elif it.k == 'loop':
                        collect_w(it.body)

            def collect_r(items):
                for it in items:
                    if it.k in ('read', 'getline') and it.member:
                        rl.add(it.member.replace('[]', ''))
                    elif it.k == 'sub' and it.target:
                        rl.add(it.target.split('.')[0])
                    elif it.k == 'loop':
                        collect_r(it.body)
            collect_w(g.writer)
            collect_r(g.reader)
            # members assigned from local tokens in the reader (push_back of a local)
            th = g.rthis
            for fdef in rec.fields:
                nm = fdef['name']
                v = fld(th, nm) if th is not None else None
                if isinstance(v, tuple) and T.contains(v, lambda t: isinstance(t, tuple) and t and t[0] == 'input'):
                    rl.add(nm)
            for fdef in rec.fields:
                nm = fdef['name']
                w = '%s:%s' % (fsite(g.wfunc), nm)
                tr = TRANSIENT.get(g.base, {}).get(nm)
                if nm in wl and nm in rl:
                    ctx.holds('vi.members', w, 'member %s is written and read' % nm)
                elif tr:
                    ctx.holds('vi.members', w, 'member %s is transient: %s' % (nm, tr))
                else:
                    ctx.violation('vi.members', w, 'member %s is %s: the reloaded object differs' %
                                  (nm, 'not written' if nm not in wl else 'written but not read'))
        ctx.guard('vi.members', wsite, r_members)

        def r_verbatim(g=g, base=base):
            # what the reader stores is what it read: a member restored from the text may be a token,
            # a container of tokens or a copy of a sub-object, but not the result of arithmetic on
            # tokens (re-normalising, rounding, clamping ...) - the written values round-trip exactly,
            # f(written value) does not have to
            th = g.rthis
            rec = g.record
            if th is None:
                raise AnalysisBroken('reader state of %s not available' % base)
            is_input = lambda t: isinstance(t, tuple) and t and t[0] == 'input'
            bad = []

            def walk(t, in_size=False):
                if not isinstance(t, tuple) or not t:
                    return
                k = t[0]
                if k in ('+', '-', '*', '/', 'neg', 'fn', 'idiv', 'imod', 'trunc', 'sum', 'prod') and not in_size:
                    if T.contains(t, is_input):
                        bad.append(t)
                    return
                if k == 'vresize' and len(t) >= 3:
                    walk(t[1])
                    return
                if k in ('vcomp', 'vcomp2', 'vmap'):
                    # loop bounds / counts are sizes, not stored values
                    walk(t[1])
                    walk(t[-1])
                    return
                if k in ('vzeros', 'vfill') and len(t) >= 2:
                    for c in t[2:]:
                        walk(c)
                    return
                for c in t[1:]:
                    walk(c)
            for fdef in rec.fields:
                nm = fdef['name']
                before = len(bad)
                walk(fld(th, nm))
                w = '%s:%s' % (fsite(g.rfunc), nm)
                if len(bad) > before:
                    ctx.violation('vii.reader_verbatim', w, 'member %s of the reloaded object is computed from the '
                                  'tokens read (%s) instead of being the value read: text -> object is not the '
                                  'inverse of object -> text' % (nm, T.pretty(bad[before])[:160]),
                                  {'stored': T.pretty(fld(th, nm))[:300]})
                else:
                    ctx.holds('vii.reader_verbatim', w, 'member %s is restored verbatim from the text (or from a '
                              'sub-object read from it)' % nm)
        ctx.guard('vii.reader_verbatim', wsite, r_verbatim)

    ctx.counts['floating-point << sites examined'] = nfloat[0]
    if nfloat[0] < 14:
        ctx.broken('gate', 'floating-point << sites', 'only %d floating-point fields found, 14 confirmed by hand' % nfloat[0])

    # R8 header
    for g in [grams.get('hep::chkpt')] + [e for e in extra if e.base == 'hep::chkpt']:
        if g is None:
            continue

        def r8(g=g):
            W, R = g.writer, g.reader
            hdr = []
            for it in W:
                if it.k == 'lit':
                    hdr.append(it)
                else:
                    break
            w = fsite(g.wfunc)
            ok_w = len(hdr) >= 2 and str(hdr[0].text).startswith('#') and str(hdr[-1].text).endswith('\n') and \
                all(not i.pc for i in hdr)
            def is_hash_test(c):
                c = norm_cond(c)
                return isinstance(c, tuple) and len(c) == 3 and c[0] == '==' and ('chr', '#') in (c[1], c[2])
            ok_r = len(R) >= 2 and R[0].k == 'peek' and R[1].k == 'ignore' and R[1].delim == '\n' and \
                len(R[1].pc) == 1 and is_hash_test(R[1].pc[0])
            if ok_w and ok_r:
                ctx.holds('R8.header', w, 'a header line starting with # is written unconditionally and '
                          'skipped up to the newline iff present')
            else:
                ctx.violation('R8.header', w, 'header line is not written / skipped consistently',
                              {'writer_header': [repr(i) for i in hdr], 'reader_start': [repr(i) for i in R[:2]]})
        ctx.guard('R8.header', fsite(g.wfunc), r8)

    # R9: the reading factories construct the checkpoint from the stream unless it is at EOF
    for nm in ('hep::make_plain_chkpt', 'hep::make_vegas_chkpt', 'hep::make_multi_channel_chkpt'):
        for f in [f for f in instances(p, nm) if len(f.params) == 1 and 'istream' in (f.params[0].type or '')]:
            ctx.analysed(f)

            def r9(f=f, nm=nm):
                from .common import summarise as _sum
                s, ex = _sum(p, f, opaque={'hep::chkpt_with_rng', nm})
                where = fsite(f)
                peeks = [e for e, l in flat_effects(s.effects) if e['kind'] == 'in' and e['how'] == 'peek']
                reads = [e for e, l in flat_effects(s.effects) if e['kind'] == 'in' and e['how'] != 'peek']
                ok = len(peeks) == 1 and not reads
                # the value returned at end of file / otherwise, whatever the spelling of the test
                eofc = ('const', 'eof')
                pk = None
                for t in T.subterms(s.ret):
                    if isinstance(t, tuple) and len(t) == 3 and t[0] in ('==', '!=') and eofc in (t[1], t[2]):
                        pk = t[2] if t[1] == eofc else t[1]
                if pk is None:
                    ok = False
                else:
                    v_eof, v_neof = by_case(s.ret, pk, eofc)
                    ok = ok and isinstance(v_eof, tuple) and v_eof[0] == 'hcall' and v_eof[1] == nm
                    ok = ok and isinstance(v_neof, tuple) and v_neof[0] == 'new' and 'chkpt_with_rng' in str(v_neof[1]) \
                        and v_neof[-1] == sym(f.params[0].name)
                if ok:
                    ctx.holds('R9.factory', where, 'the reading factory hands the untouched stream to the '
                              'deserialising constructor unless the stream is at end of file')
                else:
                    ctx.violation('R9.factory', where, 'the reading factory does not construct the checkpoint '
                                  'from the whole stream', {'returns': [(T.pretty(T.conj(pc))[:100], T.pretty(v)[:120])
                                                                        for pc, v in s.returns]})
            ctx.guard('R9', fsite(f), r9)

    # obligations behind the implicit counts
    from . import invariants
    invariants.check_implicit_counts(ctx, p)
    # a reloaded checkpoint must also restore the state that is NOT in the text while results exist:
    # the first grid / first weights are recovered from the FIRST stored result (shared with C15)
    from .common import share
    share(ctx, 'C15', 'R10/C15.', ['R3.'])



def short_where(rec):
    from ..frontend import short
    return '%s:%s' % (short(rec.loc[0]), rec.loc[1]) if rec.loc else '?'
