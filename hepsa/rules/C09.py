"""C09 - channel selection follows the weights exactly and never picks a disabled channel."""
from .. import terms as T
from .. import fpclass as fp
from ..terms import sym, add, mul, sub, div, ZERO, ONE, fld, sel, ite
from .common import *
from .C02 import ACC_OPAQUE


def cum_field(f):
    """name of the one data member of discrete_distribution (the cumulative sums)"""
    fs = [x for x in f.record.fields]
    if len(fs) != 1:
        raise AnalysisBroken('discrete_distribution is expected to have exactly one data member '
                             '(the cumulative weights); found %d' % len(fs))
    return fs[0]['name']


def check(ctx):
    p = ctx.prog
    # no state survives from one call to the next in a function-local static
    no_static_state(ctx, 'state.no_static_locals')
    # all arithmetic behind this property happens in the numeric type T of the instantiation
    single_precision(ctx, 'prec.single_type', ['hep::discrete_distribution::', 'hep::multi_channel_iteration'], 1)
    # no constructor of the classes this property computes with leaves a member indeterminate
    members_initialised(ctx, 'init.members', ['hep::discrete_distribution'], 1)
    ctx.assume('std::upper_bound / std::lower_bound / std::partial_sum semantics as in the standard; '
               'generate_canonical in [0,1)')
    # ---------------------------------------------------------------- R1 / R3 selection
    sels = instances(p, 'hep::discrete_distribution::operator()')
    ctx.count('discrete_distribution::operator() instantiations', len(sels), 1)
    for f in sels:
        ctx.analysed(f)

        def r1(f=f):
            s, ex = summarise(p, f)
            where = fsite(f)
            draws = [e for e, l in flat_effects(s.effects) if e['kind'] == 'draw']
            if len(draws) == 1 and draws[0]['pc'] == () and not any(l for e, l in flat_effects(s.effects)
                                                                   if e['kind'] == 'draw'):
                ctx.holds('R3.one_draw', where, 'exactly one canonical number per selection')
            else:
                ctx.violation('R3.one_draw', where, 'a selection does not consume exactly one canonical '
                              'number', {'draws': len(draws)})
            ws = fld(sym('this'), cum_field(f))
            r = s.ret
            u = None
            for t in T.subterms(r):
                if isinstance(t, tuple) and t and t[0] == 'rand':
                    u = t
            if isinstance(r, tuple) and r[0] in ('upper_bound', 'lower_bound') and len(r) == 6:
                _, vec, lo, hi, val, nargs = r
                if nargs != 3:
                    raise AnalysisBroken('binary search with a custom comparator: semantics unknown')
                if not (vec == ws and lo == ZERO and hi == T.size(ws) and val == u and u is not None):
                    ctx.violation('R1.interval', where, 'the search is not over all cumulative sums '
                                  'with the canonical number drawn for this selection',
                                  {'searched': T.pretty(r)[:300]})
                    return
                if r[0] == 'upper_bound':
                    ctx.holds('R1.interval', where, 'index = min{i : cum[i] > u} (std::upper_bound): '
                              'channel intervals [cum[i-1], cum[i]) are right-open like the range of u')
                else:
                    ctx.violation('R1.interval', where, 'index = min{i : cum[i] >= u} (std::lower_bound): '
                                  'intervals are right-closed; a channel of weight zero at the front is '
                                  'selected when the generator returns 0',
                                  {'abstract_counterexample': 'weights = {0, 1}: cum = {0, 1}; u = 0 -> '
                                   'first i with cum[i] >= 0 is 0, a disabled channel',
                                   'searched': T.pretty(r)[:300]})
                return
            raise AnalysisBroken('selection is neither std::upper_bound nor std::lower_bound over '
                                 'the cumulative sums: %s' % T.pretty(r)[:200])
        ctx.guard('R1', fsite(f), r1)

    # ---------------------------------------------------------------- R2 cumulative sums
    ctors = [c for c in instances(p, 'hep::discrete_distribution::discrete_distribution')
             if not c.is_implicit and len(c.params) == 2]
    ctx.count('discrete_distribution(begin, end) constructors', len(ctors), 1)
    for c in ctors:
        ctx.analysed(c)

        def r2(c=c):
            V, n = sym('V'), sym('n')
            s, ex = summarise(p, c, args={c.params[0].name: ('iter', V, ZERO), c.params[1].name: ('iter', V, n)})
            where = fsite(c)
            if len(s.loops) != 1:
                raise AnalysisBroken('normalisation loop of the cumulative sums not recognised')
            ls = s.loops[0]
            u = upd_by_loc(ls, ('lv', ('this', 'this'), (('f', cum_field(c)),)))
            if u is None:
                raise AnalysisBroken('weight_sums is not written by the constructor loop')
            if u['init'] == ('vpsum', V, ZERO, n, ZERO):
                ctx.holds('R2.partial_sums', where, 'weight_sums = partial sums of the whole weight range')
            else:
                ctx.violation('R2.partial_sums', where, 'weight_sums is not the partial sum of all weights',
                              {'init': T.pretty(u['init'])[:300]})
            pre = u['pre']
            want = T.vupd(pre, ls.idx, div(sel(pre, ls.idx), sel(pre, sub(n, ONE))))
            rng_ok = ls.node.op in ('rangefor', 'for') and ls.lo == ZERO and ls.hi == n
            if u['next'] == want and rng_ok and ls.regular:
                ctx.holds('R2.normalised', '%s:discrete_distribution' % ls.node.where(),
                          'every cumulative sum is divided by the last one, in increasing order (the '
                          'last element is divided last): cum.back() == 1 > u, index < n')
            else:
                ctx.violation('R2.normalised', '%s:discrete_distribution' % ls.node.where(),
                              'cumulative sums are not all divided by the total',
                              {'next': T.pretty(u['next'])[:400], 'range': [T.pretty(ls.lo), T.pretty(ls.hi)]})
        ctx.guard('R2', fsite(c), r2)

    # ---------------------------------------------------------------- R4 enabled channels
    ks = instances(p, 'hep::multi_channel_iteration')
    for f in ks:
        ctx.analysed(f)

        def r4(f=f):
            s, ex = summarise(p, f, opaque=ACC_OPAQUE)
            where = fsite(f)
            cw = sym(f.params[2].name)
            maps = [(e, l) for e, l in flat_effects(s.effects) if e['kind'] == 'ucall'
                    and e['args'] and e['args'][-1] == ('enum', 'calculate_coordinates')]
            if len(maps) != 1:
                raise AnalysisBroken('coordinate call of the channel map not found')
            e, loops = maps[0]
            en = e['args'][3]
            ok = isinstance(en, tuple) and en[0] == 'vcomp' and en[1] == T.vempty() and \
                en[3] == ZERO and en[4] == T.size(cw) and en[6] == en[2] and \
                (same_cond(en[5], ('!=', sel(cw, en[2]), ZERO)) or same_cond(en[5], ('>', sel(cw, en[2]), ZERO)))
            if ok and not same_cond(en[5], ('!=', sel(cw, en[2]), ZERO)):
                ctx.assume('channel weights are non-negative numbers (a probability vector, C08): for them '
                           '`w > 0` selects the same channels as `w != 0`')
            if ok:
                ctx.holds('R4.enabled_channels', where, 'enabled_channels = {i : channel_weights[i] != 0} '
                          'in increasing order, complete')
            else:
                ctx.violation('R4.enabled_channels', where, 'enabled_channels is not exactly the list of '
                              'channels with non-zero weight', {'enabled_channels': T.pretty(en)[:400]})
            # built once, outside the per-call loop
            build = [l for l in s.loops if any(k == 'enabled_channels' for k in l.updates)]
            percall = s.loops[loops[0]['loop']] if loops else None
            if percall is not None and any(k == 'enabled_channels' for k in percall.updates):
                ctx.violation('R4.enabled_once', where, 'enabled_channels is modified inside the per-call loop')
            else:
                ctx.holds('R4.enabled_once', where, 'enabled_channels is built once per iteration')
            # the channel handed to the map / stored in the point is the selector's output
            ch = e['args'][0]
            if isinstance(ch, tuple) and ch[0] in ('upper_bound', 'lower_bound') and \
                    isinstance(ch[1], tuple) and ch[1][0] == 'havoc':
                ctx.holds('R4.channel_from_selector', '%s:multi_channel_iteration' % e['where'],
                          'the channel passed to the map is the selector output for this call')
            else:
                ctx.violation('R4.channel_from_selector', '%s:multi_channel_iteration' % e['where'],
                              'the channel passed to the map is not the selector output',
                              {'channel': T.pretty(ch)[:300]})
            # the selector is built from the same weight vector
            sel_loops = [l for l in s.loops if 'discrete_distribution' in l.func.qualname]
            if len(sel_loops) != 1:
                raise AnalysisBroken('construction of the channel selector not found')
            u = list(sel_loops[0].updates.values())[0]
            if u['init'] == ('vpsum', cw, ZERO, T.size(cw), ZERO):
                ctx.holds('R4.same_vector', where, 'the channel selector is built from the same '
                          'channel_weights vector')
            else:
                ctx.violation('R4.same_vector', where, 'the channel selector is not built from the whole '
                              'channel_weights vector', {'cumulative_sums_of': T.pretty(u['init'])[:300]})
        ctx.guard('R4', fsite(f), r4)
    ctx.count('multi_channel_iteration instantiations', len(ks), 2)
    # the canonical number of the selection must be drawn in the numeric type T with T's precision:
    # drawn in a wider type and narrowed, it can round to exactly 1 and select index == channels
    from .common import share
    share(ctx, 'C10', 'R5/C10.', ['R1.selector', 'R1.template_args'])

