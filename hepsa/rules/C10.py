"""C10 - every call consumes a fixed, predictable amount of generator output."""
from .. import terms as T
from .. import algebra, symex, frontend
from ..terms import sym, add, mul, sub, div, ZERO, ONE, fld, sel, ite, num
from .common import *
from .C02 import ACC_OPAQUE
from .C12 import DRV_OPAQUE

DIGITS = {'float': 24, 'double': 53, 'long double': 64}


def draws_per_call(ctx, s, f, kern):
    """Term for the number of canonical draws per call; records violations for data dependence."""
    base = kern.replace('hep::', '')
    inv = [(e, l) for e, l in flat_effects(s.effects)
           if e['kind'] == 'hcall' and e['name'] == 'hep::accumulator::invoke']
    if len(inv) != 1 or len(inv[0][1]) != 1:
        raise AnalysisBroken('per-call loop of %s not recognised' % kern)
    percall = inv[0][1][0]
    total = ZERO
    ok = True
    if (percall['lo'], percall['hi']) != (ZERO, sym(f.params[1].name)):
        ctx.violation('R1.calls_times', '%s:%s' % (percall['where'], base), 'the per-call loop does not '
                      'run exactly `calls` times: the generator is not advanced by calls x amount',
                      {'from': T.pretty(percall['lo'])[:200], 'to': T.pretty(percall['hi'])[:200]})
        ok = False
    else:
        ctx.holds('R1.calls_times', '%s:%s' % (percall['where'], base), 'the per-call loop runs exactly '
                  '`calls` times')
    gen = sym(f.params[-1].name)
    effs = list(flat_effects(s.effects))
    first_data_dep = None
    for idx, (e, loops) in enumerate(effs):
        if e['kind'] in ('ucall',) and loops and loops[0] is percall and first_data_dep is None:
            first_data_dep = idx
        if e['kind'] == 'hcall' and e['name'] == 'hep::accumulator::invoke' and first_data_dep is None:
            first_data_dep = idx
    for idx, (e, loops) in enumerate(effs):
        if e['kind'] == 'discard':
            ctx.violation('R1.only_draws', '%s:%s' % (e['where'], base), 'the kernel discards generator '
                          'output itself')
            ok = False
        if e['kind'] in ('hcall', 'ucall', 'ext') and any(a == gen for a in e.get('args', [])):
            ctx.violation('R1.only_draws', '%s:%s' % (e['where'], base), 'the generator is handed to '
                          '%s: its consumption is not accounted for' % (e.get('name') or e.get('functor')))
            ok = False
        if e['kind'] != 'draw':
            continue
        w = '%s:%s' % (e['where'], base)
        if not loops or loops[0] is not percall:
            ctx.violation('R1.per_call', w, 'a canonical number is drawn outside the per-call loop')
            ok = False
            continue
        if 'gc_expected' not in (e.get('probe') or []):
            alt = e.get('probe') or ['an instantiation with other template arguments']
            ctx.violation('R1.template_args', w, 'the draw is not std::generate_canonical<T, '
                          'numeric_limits<T>::digits, Engine>: resolved callee is %s' % ', '.join(alt))
            ok = False
        else:
            ctx.holds('R1.template_args', w, 'std::generate_canonical<T, numeric_limits<T>::digits> '
                      '(callee resolved by declaration identity)')
        conds = tuple(e['pc'])
        for lp in loops[1:]:
            pass
        if conds:
            ctx.violation('R1.unconditional', w, 'the draw is control dependent on %s: the amount of '
                          'generator output per call is not fixed' % T.pretty(T.conj(conds))[:200])
            ok = False
        if first_data_dep is not None and idx > first_data_dep:
            ctx.violation('R1.before_data', w, 'the draw happens after the integrand / channel map was '
                          'evaluated for this call')
            ok = False
        n = ONE
        for lp in loops[1:]:
            trip = sub(lp['hi'], lp['lo'])
            bad = [t for t in T.subterms(trip) if isinstance(t, tuple) and t and
                   t[0] in ('rand', 'ucall', 'uout', 'hcall', 'pre', 'havoc', 'sel')]
            if bad:
                ctx.violation('R1.trip_count', w, 'the number of draws depends on data: trip count %s'
                              % T.pretty(trip)[:200])
                ok = False
            n = mul(n, trip)
        if e['gen'] is None or ex_root(e['gen']) is None:
            pass
        total = add(total, n)
    return total, ok


def ex_root(lv):
    return lv[1] if lv else None


def check(ctx):
    p = ctx.prog
    from .C12 import DRV_OPAQUE as _DO
    no_use_after_move(ctx, 'move.no_use_after_move', ['hep::plain', 'hep::vegas', 'hep::multi_channel', 'hep::mpi_plain', 'hep::mpi_vegas', 'hep::mpi_multi_channel'] + ['hep::chkpt_with_rng::add'], opaque=_DO, minimum=6)
    # no state survives from one call to the next in a function-local static
    no_static_state(ctx, 'state.no_static_locals')
    # no constructor of the classes this property computes with leaves a member indeterminate
    members_initialised(ctx, 'init.members', ['hep::integrand', 'hep::multi_channel_integrand'], 2)
    ctx.assume('engine.discard(n) is equivalent to n calls of the engine; std::generate_canonical '
               'calls the engine exactly k = max(1, ceil(b / log2 R)) times (installed implementation '
               'is analysed for k, not for the loop itself)')
    expected = {'hep::plain_iteration': fld(sym('integrand'), 'dimensions_'),
                'hep::vegas_iteration': fld(sym('pdf'), 'dimensions_'),
                'hep::multi_channel_iteration': add(fld(sym('integrand'), 'dimensions_'), ONE)}
    per_call = {}
    nk = 0
    for kern in KERNELS:
        for f in instances(p, kern):
            ctx.analysed(f)
            nk += 1

            def r1(f=f, kern=kern):
                s, ex = summarise(p, f, opaque=ACC_OPAQUE)
                total, ok = draws_per_call(ctx, s, f, kern)
                per_call[kern] = total
                okk, wit = algebra.equal(total, expected[kern])
                if okk and ok:
                    ctx.holds('R1.draws_per_call', fsite(f), 'canonical numbers per call = %s, fixed, '
                              'unconditional, before any data-dependent branch' % T.pretty(total))
                elif not okk:
                    ctx.violation('R1.draws_per_call', fsite(f), 'canonical numbers per call is %s, '
                                  'documented: %s' % (T.pretty(total)[:200], T.pretty(expected[kern])), wit)
                # the generator is taken by non-const reference
                gp = [f.params[-1]]
                if gp and symex.is_mut_ref(gp[0].type):
                    ctx.holds('R2.by_reference', fsite(f), 'the kernel advances the caller\'s generator '
                              '(non-const reference)')
                else:
                    ctx.violation('R2.by_reference', fsite(f), 'the kernel does not take the generator '
                                  'by non-const reference: the caller\'s generator is not advanced')
            ctx.guard('R1', fsite(f), r1)
    ctx.count('iteration kernels', nk, 6)

    # ---------------------------------------------------------------- R2 stored generator
    nd = 0
    for name in SERIAL_DRIVERS + MPI_DRIVERS:
        for d in instances(p, name):
            ctx.analysed(d)
            nd += 1

            def r2(d=d, name=name):
                s, ex = summarise(p, d, opaque=DRV_OPAQUE)
                kern = KERNEL_OF[name]
                effs = list(flat_effects(s.effects))
                ad = [e for e, l in effs if e['kind'] == 'hcall' and e['name'] == 'hep::chkpt_with_rng::add']
                kc = [e for e, l in effs if e['kind'] == 'hcall' and e['name'] == kern]
                if len(ad) != 1 or len(kc) != 1:
                    raise AnalysisBroken('driver shape not recognised')
                g = ad[0]['args'][1]
                w = '%s:%s' % (ad[0]['where'], name.replace('hep::', ''))
                kf = p.find(kern)[0]
                if isinstance(g, tuple) and g[0] == 'hout' and g[1] == kern and g[2] == kf.params[-1].name:
                    # no discard between the kernel and add in serial drivers; MPI: discards allowed
                    ctx.holds('R2.stored_generator', w, 'chkpt.add stores the very generator object the '
                              'kernel advanced')
                else:
                    ctx.violation('R2.stored_generator', w, 'the generator stored in the checkpoint is not '
                                  'the object advanced by the kernel', {'stored': T.pretty(g)[:300]})
                kg = kc[0]['args'][-1]
                if isinstance(kg, tuple) and kg and kg[0] == 'pre':
                    ctx.holds('R2.kernel_generator', w, 'the kernel samples from the driver\'s generator variable')
                if 'mpi' not in name:
                    dis = [e for e, l in effs if e['kind'] == 'discard']
                    if dis:
                        ctx.violation('R2.no_extra_consumption', w, 'a serial driver discards generator output')
            ctx.guard('R2', fsite(d), r2)
    ctx.count('integrator drivers', nd, 12)

    # ---------------------------------------------------------------- R3 usage predictor vs libstdc++
    ru = instances(p, 'hep::random_number_usage')
    ctx.count('random_number_usage instantiations', len(ru), 1)
    for f in ru:
        ctx.analysed(f)

        def r3(f=f):
            s, ex = summarise(p, f)
            where = fsite(f)
            pred = s.ret
            dg = DIGITS.get(p.numeric)
            if dg is None:
                raise AnalysisBroken('unknown numeric type %s' % p.numeric)
            consts = [t for t in T.subterms(pred) if isinstance(t, tuple) and t and t[0] == 'const'
                      and str(t[1]).startswith('std::numeric_limits::')]
            m = {}
            for c in consts:
                names = c[1].split('::')[-1].split('|')
                if 'nl_T_digits' in names:
                    m[c] = num(dg)
                else:
                    ctx.violation('R3.bits', where, 'the predictor does not use numeric_limits<T>::digits '
                                  '(the bit count requested at the draw sites) but %s' % c[1])
                    return
            if not consts:
                ctx.violation('R3.bits', where, 'the predictor does not depend on numeric_limits<T>::digits')
                return
            pred_n = T.subst(pred, m)
            aux = frontend.load_aux(p.repo, 'generate_canonical', p.numeric, p.engine)
            gcs = [g for g in aux.funcs.values() if g.body is not None and not g.is_pattern
                   and g.name == 'generate_canonical' and len(g.targs) >= 2 and g.targs[1] == str(dg)]
            if not gcs:
                raise AnalysisBroken('installed std::generate_canonical<T, %d, Engine> not found' % dg)
            g = gcs[0]
            ex2 = symex.SymEx(aux)
            s2 = ex2.summarise(g)
            names = {}
            for n_ in g.body.walk():
                if n_.op == 'decl':
                    names[n_.a['name']] = n_.a['id']
            # the number of engine calls is the trip count of the loop calling the engine
            loops = [l for l in s2.loops if any(e['kind'] == 'ucall' for e in l.effects)]
            if len(loops) != 1:
                raise AnalysisBroken('engine-calling loop of the installed generate_canonical not recognised')
            init = loops[0].node.k[0]
            if init is None or init.op != 'decl' or not init.k:
                raise AnalysisBroken('loop counter of the installed generate_canonical not recognised')
            mname = None
            if init.k[0].op == 'var':
                mname = init.k[0].a['name']
            if mname is None or mname not in names:
                raise AnalysisBroken('trip count variable of the installed generate_canonical not found')
            kstd = s2.state.env.get(names[mname])
            dconst = [t for t in T.subterms(kstd) if isinstance(t, tuple) and t and t[0] == 'const'
                      and str(t[1]).startswith('std::numeric_limits::')]
            kstd = T.subst(kstd, {c: num(dg) for c in dconst})
            kstd = algebra.minmax_to_ite(kstd)
            def int_guard_to_max(t):
                # `w == 0 ? 1 : w` for a non-negative integer w (a quotient of counts) is max(1, w); the identity check
                # below works over the reals, where the two differ for 0 < w < 1
                if not isinstance(t, tuple) or not t:
                    return t
                t = tuple(int_guard_to_max(x) if isinstance(x, tuple) else x for x in t)
                if t[0] == 'ite' and isinstance(t[1], tuple) and len(t[1]) == 3:
                    c_, a_, b_ = t[1], t[2], t[3]
                    for w_, z_ in ((c_[1], c_[2]), (c_[2], c_[1])):
                        if z_ == ZERO and isinstance(w_, tuple) and w_ and w_[0] in ('idiv', 'trunc'):
                            if c_[0] == '==' and a_ == ONE and b_ == w_:
                                return ('fn', 'max', ONE, w_)
                            if c_[0] == '!=' and b_ == ONE and a_ == w_:
                                return ('fn', 'max', ONE, w_)
                return t
            got = algebra.minmax_to_ite(int_guard_to_max(pred_n))
            ok, wit = algebra.equal(got, kstd)
            if ok:
                ctx.holds('R3.sibling_agreement', where, 'random_number_usage equals the number of engine '
                          'calls of the installed std::generate_canonical: max(1, (b + l - 1) div l), '
                          'l = trunc(log2(max - min + 1)), b = %d' % dg)
            else:
                ctx.violation('R3.sibling_agreement', where, 'the usage predictor disagrees with the '
                              'installed std::generate_canonical',
                              dict(wit or {}, predictor=T.pretty(got)[:400], installed=T.pretty(kstd)[:400]))
        ctx.guard('R3', fsite(f), r3)

    # the selector draws once (shared with C09/R3)
    for f in instances(p, 'hep::discrete_distribution::operator()'):
        def rs(f=f):
            s, ex = summarise(p, f)
            dr = [e for e, l in flat_effects(s.effects) if e['kind'] == 'draw']
            if len(dr) == 1 and dr[0]['pc'] == () and 'gc_expected' in (dr[0].get('probe') or []):
                ctx.holds('R1.selector', fsite(f), 'one unconditional generate_canonical<T, digits> per selection')
            else:
                ctx.violation('R1.selector', fsite(f), 'the channel selector does not consume exactly one '
                              'canonical number of the documented kind', {'draws': len(dr)})
        ctx.guard('R1.selector', fsite(f), rs)
    # ---------------------------------------------------------------- R5 what `dimensions()` is
    # the kernels draw integrand.dimensions() numbers per call: the factories must store the
    # `dimensions` argument (2nd parameter) there - not the map dimensions or the channel count - for
    # every overload (with and without distributions), and the getters return their own member
    facs = list(instances(p, 'hep::make_integrand')) + list(instances(p, 'hep::make_multi_channel_integrand'))
    ctx.count('integrand factory instantiations', len(facs), 4)
    for f in facs:
        ctx.analysed(f)

        def rfac(f=f):
            s, ex = summarise(p, f)
            r = s.ret
            names = [q.name for q in f.params]
            want = {'dimensions_': sym(names[1])}
            if 'multi_channel' in f.qualname:
                if len(names) < 5:
                    raise AnalysisBroken('make_multi_channel_integrand does not have its five leading parameters')
                want.update({'map_dimensions_': sym(names[3]), 'channels_': sym(names[4])})
            for fn_, w_ in want.items():
                got = T.fld(r, fn_)
                w = '%s:%s' % (fsite(f), fn_)
                if got == w_:
                    ctx.holds('R5.factory_dimensions', w, '%s of the integrand is the factory argument `%s`'
                              % (fn_, w_[1]))
                else:
                    ctx.violation('R5.factory_dimensions', w, '%s of the integrand built by the factory is not the '
                                  'argument `%s`: the kernels then draw a different number of random numbers per '
                                  'call than the caller asked for' % (fn_, w_[1]), {'stored': T.pretty(got)[:120]})
        ctx.guard('R5', fsite(f), rfac)
    for rec_, getters in (('hep::integrand', ('dimensions',)),
                          ('hep::multi_channel_integrand', ('map_dimensions', 'channels'))):
        for gname in getters:
            for gf in instances(p, rec_ + '::' + gname):
                def rget(gf=gf, gname=gname):
                    s, ex = summarise(p, gf)
                    if s.ret == T.fld(sym('this'), gname + '_'):
                        ctx.holds('R5.getters', fsite(gf), '%s() returns %s_' % (gname, gname))
                    else:
                        ctx.violation('R5.getters', fsite(gf), '%s() does not return %s_' % (gname, gname),
                                      {'returns': T.pretty(s.ret)[:120]})
                ctx.guard('R5.getters', fsite(gf), rget)
    # the generator stored after an iteration is at calls x d x usage also on every MPI rank: the
    # skips before and after a rank's share are the split formulas (shared with C16)
    share(ctx, 'C16', 'R6/C16.', ['R1.', 'R2.'])
    # the per-call usage the MPI drivers skip with is the documented amount (shared with C04)
    share(ctx, 'C04', 'R7/C04.', ['R2.usage', 'R1.generator_sequence'])

