"""C18 - a killed run always leaves a complete checkpoint file."""
from .. import terms as T
from ..terms import sym, fld
from .common import *
from .C12 import CB_OPAQUE

TH = sym('this')


def parents(root):
    par = {}
    for n in root.walk():
        for c in n.k:
            if isinstance(c, ir.N):
                par[id(c)] = n
    return par


def enclosing_blocks(n, par):
    out = []
    while id(n) in par:
        n = par[id(n)]
        if n.op == 'block':
            out.append(n)
    return out


def check(ctx):
    p = ctx.prog
    # the callbacks receive the whole checkpoint (no slicing copy)
    by_reference_parameters(ctx, 'dyn.no_slicing', ['hep::callback::operator()', 'hep::mpi_callback::operator()'], 3)
    ctx.assume('POSIX: rename() replaces the destination atomically; a file opened with O_TRUNC is '
               'empty until data are written; durability across power loss (fsync) is not claimed')
    cbs = instances(p, 'hep::callback::operator()')
    ctx.count('callback::operator() instantiations', len(cbs), 3)
    nopen = 0
    for f in cbs:
        ctx.analysed(f)

        def r1(f=f):
            nonlocal nopen
            s, ex = summarise(p, f, opaque=CB_OPAQUE)
            where = fsite(f)
            effs = [e for e, l in flat_effects(s.effects)]
            opens = [e for e in effs if e['kind'] == 'open' and ('ofstream' in (e.get('type') or '') or
                                                                  'fstream' in (e.get('type') or ''))]
            fopens = [e for e in effs if e['kind'] == 'fs' and e['name'] in ('fopen', 'open')]
            sers = [e for e in effs if e['kind'] in ('hcall', 'vcall') and e['name'].endswith('::serialize')]
            renames = [e for e in effs if e['kind'] == 'fs' and e['name'] == 'rename']
            closes = [e for e in effs if e['kind'] == 'streamop' and e['name'] == 'close']
            nopen += len(opens) + len(fopens)
            final = fld(TH, 'filename_')
            # a stream (re)opened with the member function open(path) truncates that path just like
            # the constructor does
            reopens = [e for e in effs if e['kind'] == 'streamop' and e['name'] == 'open' and e.get('args')]
            for ro in reopens:
                pth = ro['args'][0]
                w_ = '%s:callback::operator()' % ro['where']
                if pth == final or any(l_ == final for l_ in (pth[2:] if isinstance(pth, tuple) and pth and pth[0] == 'ite' else ())):
                    ctx.violation('R1.no_truncate_of_final_file', w_, 'the stream is (re)opened on `filename_` itself '
                                  '(under %s): the only durable checkpoint is truncated and rewritten in place'
                                  % (T.pretty(T.conj(ro['pc']))[:120] or 'every condition'),
                                  {'crash_point': 'kill between this open() and the last write'})
                else:
                    raise AnalysisBroken('%s: stream re-opened on %s: protocol with a second file not modelled'
                                         % (w_, T.pretty(pth)[:100]))
            if fopens:
                raise AnalysisBroken('C stdio is used to write the checkpoint: protocol not modelled')
            if not opens:
                raise AnalysisBroken('the callback opens no file: anchor vanished')
            for o in opens:
                w = '%s:callback::operator()' % o['where']
                path = o['path']

                def leaves(t):
                    if isinstance(t, tuple) and t and t[0] == 'ite':
                        return leaves(t[2]) + leaves(t[3])
                    return [t]
                if any(l == final for l in leaves(path)):
                    ctx.violation('R1.no_truncate_of_final_file', w, 'the final checkpoint file `filename_` is '
                                  'opened for writing: opening truncates it, so between this call and the last '
                                  'write of serialize() the only durable copy is empty or incomplete',
                                  {'crash_point': 'kill the process after open(O_TRUNC) and before the final '
                                   'write/close: the file exists and is not a complete checkpoint; the previous '
                                   'checkpoint is gone', 'opened': T.pretty(path)[:200]})
                    continue
                if not T.occurs(path, final):
                    ctx.violation('R1.no_truncate_of_final_file', w, 'the checkpoint is written to a path that '
                                  'is not derived from `filename_`', {'opened': T.pretty(path)[:200]})
                    continue
                # the path must differ from filename_ for EVERY file name: filename_ with a non-empty
                # literal appended / prepended always does; a name computed from parts of filename_
                # (extension replaced, directory changed, ...) coincides with it for some file names
                def concat_parts(t):
                    if isinstance(t, tuple) and t and t[0] == '+':
                        return concat_parts(t[1]) + concat_parts(t[2])
                    return [t]
                always_diff = True
                for lf in leaves(path):
                    parts = concat_parts(lf)
                    lits = [x for x in parts if isinstance(x, tuple) and x and x[0] in ('str', 'chr') and x[1] != '']
                    if not (parts.count(final) == 1 and lits and
                            all(x == final or (isinstance(x, tuple) and x and x[0] in ('str', 'chr')) for x in parts)):
                        always_diff = False
                if not always_diff:
                    lossy = any(isinstance(x, tuple) and x and x[0] == 'strop' for x in T.subterms(path))
                    if lossy:
                        ctx.violation('R1.no_truncate_of_final_file', w, 'the name of the temporary file is computed '
                                      'from a part of `filename_` (%s): for some file names it is `filename_` itself '
                                      '(e.g. a checkpoint called x.tmp when the extension is replaced by .tmp), and '
                                      'then the only durable copy is truncated and rewritten in place'
                                      % T.pretty(path)[:160],
                                      {'abstract_counterexample': 'filename_ = the value the expression yields for '
                                       'some other name, e.g. "run.tmp"', 'opened': T.pretty(path)[:200]})
                        continue
                    raise AnalysisBroken('%s: cannot show that the temporary path %s differs from filename_ for '
                                         'every file name' % (w, T.pretty(path)[:120]))
                # the temporary file must be opened truncating: in append / at-end / read-write mode the leftover of
                # a run that was killed while writing precedes the new data, and that file is renamed into place
                md = o.get('mode')
                if md is not None:
                    flags = set(t[1] for t in T.subterms(md) if isinstance(t, tuple) and len(t) == 2 and t[0] in ('sym', 'enum', 'const')
                                and isinstance(t[1], str))
                    flags = set(x.split('::')[-1] for x in flags)
                    if flags & {'app', 'ate', 'in'}:
                        ctx.violation('R1.temporary_truncated', w, 'the temporary file is opened with %s: what a killed '
                                      'run left in it is kept in front of (or overwritten only partly by) the new '
                                      'checkpoint, and the result is renamed into place'
                                      % sorted(flags & {'app', 'ate', 'in'}),
                                      {'crash_point': 'kill during the previous write, then complete one more iteration',
                                       'mode': T.pretty(md)[:120]})
                        continue
                    if not flags or not flags <= {'out', 'trunc', 'binary'}:
                        raise AnalysisBroken('%s: open mode of the temporary file not recognised: %s' % (w, T.pretty(md)[:120]))
                ctx.holds('R1.temporary_truncated', w, 'the temporary file is opened truncating (default mode / out|trunc)')
                ctx.holds('R1.no_truncate_of_final_file', w, 'data are written to a different path derived '
                          'from filename_ (%s), never to the final file' % T.pretty(path)[:80])
                # serialize into that stream, then close, then rename(tmp, final)
                stream = None
                ser_ok = [x for x in sers if x['args'] and isinstance(x['args'][0], tuple) and x['args'][0][0] == 'stream'
                          and x['args'][0][1] == o['stream'] and x['obj'] == sym('chkpt')]
                if len(ser_ok) != 1:
                    ctx.violation('R1.protocol', w, 'the temporary file is not filled by exactly one '
                                  'chkpt.serialize()')
                    continue
                rn = [r_ for r_ in renames if len(r_['args']) == 2 and r_['args'][0] == path and r_['args'][1] == final]
                if len(rn) != 1 or len(renames) != 1:
                    ctx.violation('R1.protocol', w, 'the temporary file is not moved onto filename_ by exactly '
                                  'one std::rename(tmp, filename_)',
                                  {'renames': [[T.pretty(a)[:100] for a in r_['args']] for r_ in renames]})
                    continue
                r_ = rn[0]
                if tuple(r_['pc']) != tuple(o['pc']) or tuple(ser_ok[0]['pc']) != tuple(o['pc']):
                    ctx.violation('R1.protocol', w, 'open / serialize / rename are not executed under the same '
                                  'condition: some path leaves a temporary file or renames a stale one',
                                  {'open': T.pretty(T.conj(o['pc']))[:200], 'rename': T.pretty(T.conj(r_['pc']))[:200]})
                    continue
                order_ok = effs.index(o) < effs.index(ser_ok[0]) < effs.index(r_)
                # closed before the rename: explicit close() or the stream's scope ends first
                closed = any(c_['stream'] == ('stream', o['stream']) and effs.index(ser_ok[0]) < effs.index(c_) < effs.index(r_)
                             for c_ in closes)
                if order_ok and closed:
                    ctx.holds('R1.protocol', w, 'open(tmp) -> serialize -> stream closed -> rename(tmp, '
                              'filename_): at every instant filename_ is absent, the previous or the new '
                              'complete checkpoint')
                elif not order_ok:
                    ctx.violation('R1.protocol', w, 'rename happens before the data are written')
                else:
                    ctx.violation('R1.protocol', w, 'the temporary file is renamed while its stream is still '
                                  'open: buffered data are written after the rename, a kill in between leaves '
                                  'a truncated final file')
        ctx.guard('R1', fsite(f), r1)
    if nopen < 3:
        ctx.broken('gate', 'file-opening sites', 'file opening site of the callback not found')
    # under MPI only one process may write the file: ranks writing the same temporary file
    # concurrently break the protocol although each of them follows it (shared with C20)
    from .common import share
    share(ctx, 'C20', 'R2/C20.', ['R4.rank_dependent_effect'])
    # the file that is renamed into place is a complete checkpoint only if the reader takes it back: separators and
    # the order of the items agree between serialize() and the stream constructors (shared with C05)
    share(ctx, 'C05', 'R4/C05.', ['ii.', 'i.sequence', 'i.loop_counts', 'iv.'])
    # no other member function of the callback (constructor, setters) may open the final file for
    # writing: a probe like `std::ofstream(filename_)` truncates the checkpoint of the previous job
    nother = 0
    for rec in set(f.record for f in cbs if f.record is not None):
        # private helpers reached from operator() are part of the protocol checked by R1 (they are inlined there)
        own, todo = set(), [m for m in rec.methods if m.name == 'operator()' and m.body is not None]
        while todo:
            g = todo.pop()
            for n in g.body.walk():
                if n.op in ('mcall', 'call') and n.a.get('hep') and n.a.get('id') not in own:
                    h = p.funcs.get(n.a['id'])
                    if h is not None and h.body is not None and h.record is rec:
                        own.add(n.a['id'])
                        todo.append(h)
        for m in rec.methods:
            if m.body is None or m.is_pattern or m.name == 'operator()' or m.id in own:
                continue
            nother += 1

            def r3(m=m):
                s, ex = summarise(p, m, opaque=CB_OPAQUE)
                final = fld(TH, 'filename_')
                names = [sym(q.name) for q in m.params if 'basic_string' in (q.type or '') or 'string' in (q.type or '')]
                ops = [e for e, l in flat_effects(s.effects) if (e['kind'] == 'open' and 'ofstream' in (e.get('type') or ''))
                       or (e['kind'] == 'open' and 'fstream' in (e.get('type') or '') and 'ifstream' not in (e.get('type') or ''))
                       or (e['kind'] == 'streamop' and e['name'] == 'open')]
                bad = [e for e in ops if (e.get('path') if e['kind'] == 'open' else (e.get('args') or [None])[0]) in [final] + names
                       or fld(s.this, 'filename_') == (e.get('path') if e['kind'] == 'open' else (e.get('args') or [None])[0])]
                # ... nor rename / remove anything onto it: the only rename that may replace the checkpoint is the one of
                # the protocol, straight after a temporary file was written completely and closed
                fsops = [e for e, l in flat_effects(s.effects) if e['kind'] in ('fs', 'ext') and
                         (e.get('name') or '').split('::')[-1] in ('rename', 'remove', 'unlink', 'truncate')]
                hits = [e for e in fsops if any(a_ == final or a_ in names or
                                                (isinstance(a_, tuple) and a_ and a_[0] == 'strop' and final in a_)
                                                for a_ in (e.get('args') or []))]
                if hits and not bad:
                    ctx.violation('R3.no_other_writer', '%s:callback::%s' % (hits[0]['where'], m.name), 'the checkpoint '
                                  'file is replaced or removed in %s, outside the write protocol: a leftover temporary '
                                  'file of a killed run (possibly truncated) takes the place of the complete checkpoint'
                                  % m.name, {'crash_point': 'kill while the temporary file is being written, then '
                                                            'construct the callback of the resumed run',
                                             'operation': hits[0].get('name')})
                    return
                if bad:
                    ctx.violation('R3.no_other_writer', '%s:callback::%s' % (bad[0]['where'], m.name), 'the checkpoint file '
                                  'itself is opened for writing in %s: an existing checkpoint is truncated before the '
                                  'first new checkpoint has been written' % m.name,
                                  {'crash_point': 'kill after this call and before the first rename() of the job'})
                elif ops:
                    raise AnalysisBroken('%s opens a file for writing: %s' % (m.name, T.pretty(ops[0].get('path') or ('?',))[:80]))
                else:
                    ctx.holds('R3.no_other_writer', fsite(m), 'opens no file for writing')
            ctx.guard('R3', fsite(m), r3)
    ctx.count('other member functions of the callback', nother, 2)

