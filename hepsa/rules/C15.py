"""C15 - rolling a checkpoint back to iteration k reproduces the run that stopped after k."""
from .. import terms as T
from .. import algebra
from .. import fpclass as fp
from ..terms import sym, add, mul, sub, ZERO, ONE, fld, sel
from .common import *
from . import invariants

TH = sym('this')
K = sym('iteration')

FIRST_STATE = {
    'hep::vegas_chkpt': dict(member='pdf_', elem_of_result='pdf_', creator='hep::vegas_chkpt::dimensions',
                             default_reads='bins_', what='grid'),
    'hep::multi_channel_chkpt': dict(member='first_channel_weights_', elem_of_result='channel_weights_',
                                     creator='hep::multi_channel_chkpt::channels', default_reads=None,
                                     what='channel weights'),
}


def check(ctx):
    p = ctx.prog
    # calls through base-class references reach the derived implementation
    no_hiding_in_hierarchy(ctx, 'dyn.overrides_are_virtual')
    ctx.assume('textual identity of the re-serialised checkpoint follows from R1-R4 and the lossless '
               'format (C05); the stored result k records the state iteration k sampled with (C19/R1)')
    # ---------------------------------------------------------------- R1 size relation
    invariants.generators_invariant(ctx, p)
    nrb = 0
    for f in instances(p, 'hep::chkpt_with_rng::rollback'):
        ctx.analysed(f)
        nrb += 1

        def r1(f=f):
            s, ex = summarise(p, f)
            where = fsite(f)
            n = T.size(fld(TH, 'results_'))
            G = T.size(fld(TH, 'generators_'))
            res = fld(s.this, 'results_')
            gen = fld(s.this, 'generators_')

            def order_case(rel):
                m = {}
                for (x, y), r in (((K, n), rel), ((n, K), {'<': '>', '>': '<', '==': '=='}[rel])):
                    m[('<', x, y)] = T.TRUE if r == '<' else T.FALSE
                    m[('<=', x, y)] = T.TRUE if r in ('<', '==') else T.FALSE
                    m[('>', x, y)] = T.TRUE if r == '>' else T.FALSE
                    m[('>=', x, y)] = T.TRUE if r in ('>', '==') else T.FALSE
                    m[('==', x, y)] = T.TRUE if r == '==' else T.FALSE
                    m[('!=', x, y)] = T.FALSE if r == '==' else T.TRUE
                return m

            def by_order(t, base, lo_):
                # the value for k < n and for k == n; erasing the empty range [n, n) is a no-op, so an
                # early `return` for k == n is the same as the erase
                lt = T.subst(t, order_case('<'))
                eq = T.subst(t, order_case('=='))
                if eq == base:
                    eq = lt
                return lt if lt == eq else t
            res = by_order(res, fld(TH, 'results_'), K)
            gen = by_order(gen, fld(TH, 'generators_'), add(K, ONE))
            inv = {G: add(n, ONE)}
            sr = T.subst(T.size(res), inv)
            sg = T.subst(T.size(gen), inv)
            ok, wit = algebra.equal(sg, add(sr, ONE))
            okk, _ = algebra.equal(sr, K)
            er = [e for e, l in flat_effects(s.effects) if e['kind'] == 'erase']
            eg = [e for e in er if e['vec'] and e['vec'][2] and e['vec'][2][-1] == ('f', 'generators_')]
            w = '%s:chkpt_with_rng::rollback' % (eg[0]['where'] if eg else f.where())
            if ok and okk:
                ctx.holds('R1.rollback_sizes', w, 'rollback(k) leaves k results and k+1 generators '
                          '(|generators_| = |results_| + 1 preserved)')
            else:
                ctx.violation('R1.rollback_sizes', w, 'rollback(k) leaves %s results and %s generators: the '
                              'invariant |generators_| = |results_| + 1 is broken (rollback(n) drops the '
                              'last generator, rollback(0) leaves none and generator() reads back() of an '
                              'empty vector)' % (T.pretty(sr)[:60], T.pretty(sg)[:60]),
                              {'abstract_history': 'run 3 iterations; rollback(3): text changes; rollback(0): '
                               'generator() is undefined', 'generators_after': T.pretty(gen)[:200]})
            # what is kept: the first k results and the first k+1 generators
            keep_r = isinstance(res, tuple) and res[0] == 'verase' and res[1] == fld(TH, 'results_') and \
                res[2] == K and res[3] == n
            if keep_r:
                ctx.holds('R1.keeps_prefix', where, 'the first k results are kept, the rest erased')
            else:
                ctx.violation('R1.keeps_prefix', where, 'rollback does not keep exactly the first k results',
                              {'results_after': T.pretty(res)[:200]})
            if isinstance(gen, tuple) and gen[0] == 'verase' and gen[1] == fld(TH, 'generators_') and \
                    algebra.equal(gen[2], add(K, ONE))[0] and gen[3] == G:
                ctx.holds('R1.keeps_prefix', where + ':generators', 'the first k+1 generators are kept: '
                          'generator() is the one stored after iteration k')
            elif ok and okk:
                ctx.violation('R1.keeps_prefix', where + ':generators', 'rollback does not keep the first '
                              'k+1 generators', {'generators_after': T.pretty(gen)[:200]})
            # R2: range check dominates every mutation
            thr = [e for e, l in flat_effects(s.effects) if e['kind'] == 'throw']
            cond = ('>', K, n)
            def truth(pc, rel):
                return T.subst(T.conj(pc), order_case(rel))
            thr_ok = thr and all(truth(e['pc'], '>') == T.TRUE and truth(e['pc'], '<') == T.FALSE and
                                 truth(e['pc'], '==') == T.FALSE for e in thr)
            er_ok = all(truth(e['pc'], '>') == T.FALSE for e in er)
            if thr_ok and er_ok:
                ctx.holds('R2.range_check_first', where, 'k > n throws before anything is erased; every '
                          'erase happens under k <= n; k = n erases the empty range')
            else:
                ctx.violation('R2.range_check_first', where, 'a mutation is not dominated by the range '
                              'check `iteration > size -> throw`: k = n+1 is not rejected with the object '
                              'untouched', {'throws': [T.pretty(T.conj(e['pc']))[:100] for e in thr],
                                            'erases': [T.pretty(T.conj(e['pc']))[:100] for e in er]})
        ctx.guard('R1', fsite(f), r1)
    ctx.count('chkpt_with_rng::rollback instantiations', nrb, 3)
    # generator() returns the last stored generator
    for f in instances(p, 'hep::chkpt_with_rng::generator'):
        def rg(f=f):
            s, ex = summarise(p, f)
            g = fld(TH, 'generators_')
            if s.ret == sel(g, sub(T.size(g), ONE)):
                ctx.holds('R1.generator_last', fsite(f), 'generator() returns the last stored generator')
            else:
                ctx.violation('R1.generator_last', fsite(f), 'generator() does not return the last stored '
                              'generator', {'returns': T.pretty(s.ret)[:200]})
        ctx.guard('R1.generator_last', fsite(f), rg)

    # ---------------------------------------------------------------- R3/R4 first state survives a reload
    for base, cfg in FIRST_STATE.items():
        short = base.split('::')[-1]
        mem = cfg['member']
        ctors = [c for c in instances(p, base + '::' + short) if not c.is_implicit]
        ctx.count(short + ' constructors', len(ctors), 3)
        for c in ctors:
            ctx.analysed(c)

            def r3(c=c, base=base, cfg=cfg, mem=mem, short=short):
                s, ex = summarise(p, c, opaque={'hep::chkpt', 'hep::vegas_pdf', 'hep::multi_channel_refine_weights'})
                th = s.this
                where = fsite(c)
                istream = len(c.params) == 1 and 'istream' in (c.params[0].type or '')
                v = fld(th, mem)
                results = fld(th, 'results_')
                nres = T.size(results)
                cases = [('no results', fp.ZERO)]
                if istream:
                    cases.append(('at least one result', fp.POS))
                for cname, rc in cases:
                    env = fp.Env({nres: rc})
                    vv = fp.resolve(v, env)
                    sz = fp.ev(T.size(vv), env)
                    populated = sz.cls == fp.POS and not sz.tainted
                    default_ok = False
                    if cfg['default_reads']:
                        b = fld(th, cfg['default_reads'])
                        default_ok = not (isinstance(b, tuple) and b[0] == 'undef')
                    else:
                        default_ok = not istream or rc == fp.ZERO
                    w = '%s:%s' % (where, cname.replace(' ', '_'))
                    if istream and rc == fp.POS:
                        # provenance: must be the state iteration 0 sampled with = first stored result
                        want = fld(sel(results, ZERO), cfg['elem_of_result'])
                        first = None
                        if isinstance(vv, tuple) and vv[0] == 'vpush' and T.size(vv[1]) == ZERO:
                            first = vv[2]
                        elif isinstance(vv, tuple) and vv[0] == 'vlist' and len(vv) == 2:
                            first = vv[1]
                        elif mem == 'first_channel_weights_':
                            first = vv
                        got_first = first == want if mem != 'first_channel_weights_' else vv == want
                        if got_first:
                            ctx.holds('R3.first_state_restored', w, 'reloaded checkpoint with results: the '
                                      'first %s is restored from result 0, so rollback(0) + resume samples '
                                      'iteration 0 with the original state' % cfg['what'])
                        else:
                            detail = 'left empty' if not populated else 'set to ' + T.pretty(vv)[:120]
                            extra = ''
                            if cfg['default_reads']:
                                extra = '; after rollback(0) dimensions() builds vegas_pdf(d, %s) from the ' \
                                        'never-initialised member %s' % (cfg['default_reads'], cfg['default_reads'])
                            else:
                                extra = '; after rollback(0) channels() installs the uniform default instead ' \
                                        'of the user weights'
                            ctx.violation('R3.first_state_restored', w, 'a checkpoint read back with >= 1 '
                                          'results has its first %s %s%s' % (cfg['what'], detail, extra),
                                          {'abstract_history': 'ctor(istream)[n>=1] -> rollback(0) -> %s -> %s'
                                           % (cfg['creator'].split('::')[-1] + '()', 'pdf()' if mem == 'pdf_' else 'channel_weights()'),
                                           mem: T.pretty(vv)[:200]})
                    else:
                        if populated or default_ok:
                            ctx.holds('R3.definitely_populated', w, 'after this constructor either the first '
                                      '%s is present or everything the default construction reads is '
                                      'initialised' % cfg['what'])
                        else:
                            ctx.violation('R3.definitely_populated', w, 'constructor leaves no first %s and '
                                          'does not initialise %s' % (cfg['what'], cfg['default_reads']))
            ctx.guard('R3', fsite(c), r3)
        # the default is created only when there is neither a first state nor a result
        cr = p.one(cfg['creator'])
        ctx.analysed(cr)

        def r3c(cr=cr, cfg=cfg, mem=mem):
            s, ex = summarise(p, cr, opaque={'hep::vegas_pdf'})
            v = fld(s.this, mem)
            old = fld(TH, mem)
            env = fp.Env({T.size(old): fp.POS})
            if fp.resolve(v, env) == old:
                ctx.holds('R4.first_state_kept', fsite(cr), '%s() never replaces an existing first %s'
                          % (cr.name, cfg['what']))
            else:
                ctx.violation('R4.first_state_kept', fsite(cr), '%s() can overwrite an existing first %s'
                              % (cr.name, cfg['what']), {'after': T.pretty(v)[:300]})
        ctx.guard('R4.first_state_kept', fsite(cr), r3c)

    # base class rollback / add do not touch the first state
    for base, cfg in FIRST_STATE.items():
        mem = cfg['member']
        for f in instances(p, 'hep::chkpt::rollback'):
            if cfg['elem_of_result'] == 'pdf_' and 'vegas_result' not in f.qualname:
                continue
            if cfg['elem_of_result'] == 'channel_weights_' and 'multi_channel_result' not in f.qualname:
                continue

            def rb(f=f):
                s, ex = summarise(p, f)
                changed = [n for n, v in T.obj_fields(s.this).items() if n != 'results_']
                if changed:
                    ctx.violation('R4.rollback_touches_only_results', fsite(f), 'chkpt::rollback modifies %s' % changed)
                else:
                    ctx.holds('R4.rollback_touches_only_results', fsite(f), 'chkpt::rollback only erases results')
            ctx.guard('R4.rollback', fsite(f), rb)
    # a rolled-back checkpoint continues like the original run only if the state handed to the next
    # iteration is a function of the stored results alone (no cached state that rollback does not
    # know about): shared with C19
    from .common import share
    share(ctx, 'C19', 'R6/C19.', ['R2.'])
    # a rolled-back checkpoint that goes through text must come back with the same parameters: every
    # floating-point member is written with full precision whatever the number of results (shared with C05)
    share(ctx, 'C05', 'R7/C05.', ['iii.', 'vi.', 'vii.'])
    # a run of k iterations (k = 0 included) returns the checkpoint the driver prepared and maintained (shared with C12)
    share(ctx, 'C12', 'R8/C12.', ['R1.returned'])

