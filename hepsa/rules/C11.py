"""C11 - a distribution bin is the integral of the integrand restricted to that bin."""
from .. import terms as T
from .. import fpclass as fp
from ..terms import sym, add, mul, sub, div, idiv, ZERO, ONE, fld, sel, ite, num
from .common import *
from .C06 import pc_truth

TWO = num(2)


def params_of(index):
    return sel(fld(sym('this'), 'parameters_'), index)


def upper_bounded(operand, pc):
    """Is there a dominating guard bounding the floating operand from above?"""
    for c in pc:
        neg = False
        while isinstance(c, tuple) and c[0] == 'not':
            neg = not neg
            c = c[1]
        if not (isinstance(c, tuple) and c[0] in ('<', '<=', '>', '>=')):
            continue
        op, a, b = c
        if neg:
            op = {'<': '>=', '<=': '>', '>': '<=', '>=': '<'}[op]
        if a == operand and op in ('<', '<='):
            return b
        if b == operand and op in ('>', '>='):
            return a
    return None


def check(ctx):
    p = ctx.prog
    # all arithmetic behind this property happens in the numeric type T of the instantiation
    single_precision(ctx, 'prec.single_type', ['hep::accumulator::', 'hep::projector::', 'hep::distribution_parameters::', 'hep::distribution_result::'], 1)
    # no constructor of the classes this property computes with leaves a member indeterminate
    members_initialised(ctx, 'init.members', ['hep::accumulator', 'hep::distribution_parameters', 'hep::distribution_result', 'hep::projector'], 5)
    ctx.assume('bin sizes positive and finite, range minima finite, bin counts >= 1 (documented '
               'preconditions of distribution_parameters)')
    th = sym('this')
    index = sym('index')
    P = params_of(index)
    nconv = 0
    fills = []
    for name in ('hep::accumulator::add_to_1d_distribution', 'hep::accumulator::add_to_2d_distribution'):
        fills += [(name, f) for f in instances(p, name)]
    ctx.count('distribution fill functions', len(fills), 2)
    for name, f in fills:
        ctx.analysed(f)
        two_d = name.endswith('2d_distribution')
        s, ex = summarise(p, f, opaque={'hep::accumulate'})
        where = fsite(f)
        convs = [e for e, l in flat_effects(s.effects) if e['kind'] == 'conv']
        accs = [e for e, l in flat_effects(s.effects) if e['kind'] == 'hcall' and e['name'] == 'hep::accumulate']
        nconv += len(convs)
        x, y, v = sym('x'), sym('y'), sym('value')
        base = fp.Env({v: fp.FINITE, x: fp.TOP, y: fp.TOP,
                       fld(P, 'x_min_'): fp.FINITE, fld(P, 'y_min_'): fp.FINITE,
                       fld(P, 'bin_size_x_'): fp.POS, fld(P, 'bin_size_y_'): fp.POS,
                       fld(P, 'bins_x_'): fp.POS, fld(P, 'bins_y_'): fp.POS})

        # ------------------------------------------------------------ R2 conversion safety
        for c in convs:
            def r2(c=c):
                w = '%s:%s' % (c['where'], f.name)
                env = base
                for cond in c['pc']:
                    env = fp.refine(cond, env, True)
                cls = fp.ev(c['operand'], env)
                ub = upper_bounded(c['operand'], c['pc'])
                problems = []
                if cls.cls & (fp.NAN | fp.PINF | fp.NINF | fp.NEG):
                    problems.append('operand may be %s at the conversion' % fp.show(cls.cls & ~(fp.ZERO | fp.POS)))
                if ub is None:
                    problems.append('no dominating guard bounds the floating value from above: '
                                    'values >= 2^64 bin widths reach an undefined float->integer conversion')
                if problems:
                    ctx.violation('R2.conversion_in_range', w, 'floating->integer conversion of the bin '
                                  'quotient is not guarded: ' + '; '.join(problems),
                                  {'operand': T.pretty(c['operand'])[:300],
                                   'guards_before': T.pretty(T.conj(c['pc']))[:500],
                                   'abstract_counterexample': 'x = +inf (or any x >= x_min + 2^64*bin_size): '
                                   'the quotient is not representable; with g++/x86-64 it lands in bin 0'})
                else:
                    ctx.holds('R2.conversion_in_range', w, 'operand of the conversion is finite, '
                              'non-negative and below %s by dominating guards on the floating value'
                              % T.pretty(ub)[:80])
            ctx.guard('R2', '%s:%s' % (c['where'], f.name), r2)

        # ------------------------------------------------------------ R1 index formulas
        def r1():
            if len(accs) != 1:
                raise AnalysisBroken('expected exactly one accumulate() in %s' % f.name)
            a = accs[0]
            qx = div(sub(x, fld(P, 'x_min_')), fld(P, 'bin_size_x_'))
            bx = ('trunc', qx)
            if two_d:
                qy = div(sub(y, fld(P, 'y_min_')), fld(P, 'bin_size_y_'))
                by = ('trunc', qy)
                flat = add(mul(by, fld(P, 'bins_x_')), bx)
            else:
                flat = bx
            idx = add(sel(fld(th, 'indices_'), index), mul(TWO, flat))
            want = [sel(fld(th, 'sums_'), idx), sel(fld(th, 'sums_'), add(idx, ONE)),
                    sel(fld(th, 'compensations_'), idiv(idx, TWO)), v]
            names = ['sum cell', 'sum-of-squares cell', 'compensation cell', 'value']
            for got, w_, nm in zip(accumulate_args(p, a)[0], want, names):
                # the cells as they are on the paths that reach the accumulation (helpers that report
                # "outside" through a flag leave conditions in the term that the path excludes)
                got = simplify_under(got, a['pc'])
                if got[0] == 'sel' and w_[0] == 'sel' and got[1] == w_[1]:
                    check_equal(ctx, 'R1.flat_index', where + ':' + nm, 'index of the %s (x fastest, then y)' % nm,
                                got[2], w_[2])
                elif got == w_:
                    ctx.holds('R1.flat_index', where + ':' + nm, nm + ' as documented')
                else:
                    ctx.violation('R1.flat_index', where + ':' + nm, '%s is not the documented storage' % nm,
                                  {'got': T.pretty(got)[:300], 'want': T.pretty(w_)[:300]})
            # counters of the same bin
            for cname in ('non_zero_calls_', 'finite_calls_'):
                final = fld(s.this, cname)
                cell = idiv(idx, TWO)
                # under the path condition of the accumulate the counter cell is incremented by one
                env = base
                for cond in a['pc']:
                    env = fp.refine(cond, env, True)
                red = fp.resolve(simplify_under(final, a['pc']), env)
                want_c = T.vupd(fld(th, cname), cell, add(sel(fld(th, cname), cell), ONE))
                ok = False
                if isinstance(red, tuple) and red[0] == 'vupd' and red[1] == fld(th, cname):
                    from .. import algebra
                    ok1, _ = algebra.equal(red[2], cell)
                    ok2, _ = algebra.equal(red[3], add(sel(fld(th, cname), red[2]), ONE))
                    ok = ok1 and ok2
                if ok:
                    ctx.holds('R1.counters', where + ':' + cname, 'counter of the same bin incremented once')
                else:
                    ctx.violation('R1.counters', where + ':' + cname, 'the counter of the filled bin is '
                                  'not incremented exactly once', {'final': T.pretty(red)[:400]})
        ctx.guard('R1', where, r1)

        # ------------------------------------------------------------ R5 out of range -> no effect
        def r5():
            a = accs[0]
            scen = [('x below the range', {sub(x, fld(P, 'x_min_')): fp.NEG | fp.NINF}),
                    ('x is NaN', {x: fp.NAN}), ('x is +inf', {x: fp.PINF})]
            if two_d:
                scen += [('y below the range', {sub(y, fld(P, 'y_min_')): fp.NEG | fp.NINF}),
                         ('y is NaN', {y: fp.NAN}), ('y is +inf', {y: fp.PINF})]
            bad = []
            for nm, vals in scen:
                env = base.copy()
                env.vals.update(vals)
                t = pc_truth(a['pc'], env)
                if t.cls & fp.BT:
                    bad.append(nm)
            # right of the range: quotient >= number of bins
            qs = [('x', div(sub(x, fld(P, 'x_min_')), fld(P, 'bin_size_x_')), fld(P, 'bins_x_'))]
            if two_d:
                qs.append(('y', div(sub(y, fld(P, 'y_min_')), fld(P, 'bin_size_y_')), fld(P, 'bins_y_')))
            for nm, q, nb in qs:
                env = fp.refine(('<', q, nb), base, False)
                env = fp.refine(('>=', ('trunc', q), nb), env, True)
                t = pc_truth(a['pc'], env)
                if t.cls & fp.BT:
                    bad.append('%s right of the range (quotient >= bins)' % nm)
            if bad:
                ctx.violation('R5.outside_no_effect', where, 'a coordinate outside the range can reach a bin: '
                              + ', '.join(bad), {'scenarios': bad, 'guard': T.pretty(T.conj(a['pc']))[:600]})
            else:
                ctx.holds('R5.outside_no_effect', where, 'coordinates below, right of the range, NaN and '
                          '+inf reach no bin')
            # inside: the left edge belongs to the bin (>= not >): shifted == 0 is accepted
            env = base.copy()
            env.vals[sub(x, fld(P, 'x_min_'))] = fp.ZERO
            if two_d:
                env.vals[sub(y, fld(P, 'y_min_'))] = fp.ZERO
            t = pc_truth(a['pc'], env)
            if not (t.cls & fp.BT):
                ctx.violation('R5.left_edge_inside', where, 'a coordinate exactly on the lower edge of '
                              'the range is rejected (bins are half-open [min + k*size, min + (k+1)*size))',
                              {'guard': T.pretty(T.conj(a['pc']))[:600]})
            else:
                ctx.holds('R5.left_edge_inside', where, 'lower edge of the range belongs to bin 0')
        ctx.guard('R5', where, r5)
    ctx.count('float->integer conversions in the accumulator', nconv, 3)

    # ---------------------------------------------------------------- indices_ built by the ctor
    ctor = [c for c in instances(p, 'hep::accumulator::accumulator')
            if c.record and 'true' in c.record.qualname.replace(' 1>', ' true>') and not c.is_implicit
            and len(c.params) == 1]
    ctor = [c for c in ctor if any(fl['name'] == 'indices_' for fl in c.record.fields)]
    ctx.count('accumulator<T,true> constructors', len(ctor), 1)
    PR = sym('parameters')
    e_ = sym('_e')

    def bins_of(vec, k):
        return mul(fld(sel(vec, k), 'bins_x_'), fld(sel(vec, k), 'bins_y_'))
    for c in ctor:
        ctx.analysed(c)

        def rc(c=c):
            PR = sym(c.params[0].name)
            s, ex = summarise(p, c)
            ind = fld(s.this, 'indices_')
            if not (isinstance(ind, tuple) and ind[0] == 'vcomp' and ind[3] == ZERO and ind[4] == T.size(PR)
                    and ind[5] == T.TRUE):
                raise AnalysisBroken('indices_ is not built by one pass over the parameters')
            if ind[1] != T.vempty():
                ctx.violation('R1.indices', fsite(c), 'indices_ does not start empty: the offset of distribution d is '
                              'not at position d', {'starts_with': T.pretty(ind[1])[:200]})
                return
            d = ind[2]
            want = add(TWO, ('sum', e_, ZERO, d, mul(TWO, bins_of(PR, e_))))
            check_equal(ctx, 'R1.indices', fsite(c), 'indices_[d] = 2 + 2*sum_{e<d} bins_x(e)*bins_y(e)',
                        ind[6], want)
            total = add(TWO, ('sum', e_, ZERO, T.size(PR), mul(TWO, bins_of(PR, e_))))
            sz = T.size(fld(s.this, 'sums_'))
            from .. import algebra
            # sums_ must hold at least `total` cells; the counters total/2
            ok, _ = algebra.equal(sz, total)
            ok2, _ = algebra.equal(sz, add(total, TWO))
            if ok or ok2:
                ctx.holds('R1.storage', fsite(c), 'sums_ has room for the integrated result and every bin')
            else:
                ctx.violation('R1.storage', fsite(c), 'size of sums_ does not match the number of bins',
                              {'size': T.pretty(sz)[:300]})
            # the per-cell vectors (compensations, the two counters; cell = index / 2) need total / 2 cells
            def halves(t):
                # 2 * (x div 2) for an even x
                if isinstance(t, tuple) and t and t[0] == 'idiv' and t[2] == TWO:
                    return t[1]
                return mul(TWO, t)
            short = []
            ncell = 0
            for fl in c.record.fields:
                v = fld(s.this, fl['name'])
                if fl['name'] in ('sums_', 'indices_') or v == PR or not \
                        (isinstance(v, tuple) and v and v[0] in ('vzeros', 'vfill', 'vcomp', 'vmap', 'vresize')):
                    continue
                ncell += 1
                szc = halves(T.size(v))
                if not (algebra.equal(szc, total)[0] or algebra.equal(szc, add(total, TWO))[0]):
                    short.append((fl['name'], T.pretty(T.size(v))[:200]))
            if ncell < 3:
                raise AnalysisBroken('the per-cell vectors of accumulator<T,true> (compensations, counters) are '
                                     'not recognised')
            if short:
                ctx.violation('R1.cell_storage', fsite(c), 'a per-cell vector does not have one element per cell '
                              '(integrated result and every bin): .at() throws for the last bins, [] writes past '
                              'the end', {'vectors': short})
            else:
                ctx.holds('R1.cell_storage', fsite(c), '%d per-cell vectors hold total/2 elements' % ncell)
        ctx.guard('R1.indices', fsite(c), rc)

    # ---------------------------------------------------------------- R4 result(): bins
    res = [r for r in instances(p, 'hep::accumulator::result')
           if any(fl['name'] == 'indices_' for fl in r.record.fields)]
    ctx.count('accumulator<T,true>::result', len(res), 1)
    for r in res:
        ctx.analysed(r)

        def r4(r=r):
            s, ex = summarise(p, r)
            dists = fld(s.ret, 'distributions_')
            PA = fld(th, 'parameters_')
            if not (isinstance(dists, tuple) and dists[0] == 'vcomp' and dists[3] == ZERO and
                    dists[4] == T.size(PA) and dists[5] == T.TRUE):
                raise AnalysisBroken('result(): distributions are not built by one pass over parameters_')
            d = dists[2]
            dr = dists[6]
            if fld(dr, 'parameters_') == sel(PA, d):
                ctx.holds('R4.parameters', fsite(r), 'distribution d carries parameters d')
            else:
                ctx.violation('R4.parameters', fsite(r), 'distribution d does not carry its own parameters',
                              {'got': T.pretty(fld(dr, 'parameters_'))[:200]})
            bins = fld(dr, 'results_')
            nb = bins_of(PA, d)
            if not (isinstance(bins, tuple) and bins[0] == 'vcomp' and bins[3] == ZERO and bins[5] == T.TRUE):
                raise AnalysisBroken('result(): bins are not built by one counted loop')
            from .. import algebra
            okn, _ = algebra.equal(bins[4], nb)
            if bins[1] != T.vempty() or dists[1] != T.vempty():
                ctx.violation('R4.all_bins', fsite(r), 'the bins of distribution d are appended to a vector that is '
                              'not empty: bins of earlier distributions (a scratch vector that is not emptied between '
                              'distributions) precede them, bin k is no longer at position k',
                              {'starts_with': T.pretty(bins[1] if bins[1] != T.vempty() else dists[1])[:300]})
            elif okn:
                ctx.holds('R4.all_bins', fsite(r), 'every bin (bins_x*bins_y) is reported, in linear order')
            else:
                ctx.violation('R4.all_bins', fsite(r), 'not every bin is reported',
                              {'count': T.pretty(bins[4])[:200]})
            k = bins[2]
            b = bins[6]
            idx = add(add(TWO, ('sum', e_, ZERO, d, mul(TWO, bins_of(PA, e_)))), mul(TWO, k))
            inv = div(div(ONE, fld(sel(PA, d), 'bin_size_x_')), fld(sel(PA, d), 'bin_size_y_'))
            want = {
                'calls_': sym('calls'),
                'non_zero_calls_': sel(fld(th, 'non_zero_calls_'), idiv(idx, TWO)),
                'finite_calls_': sel(fld(th, 'finite_calls_'), idiv(idx, TWO)),
                'sum_': mul(inv, sel(fld(th, 'sums_'), idx)),
                'sum_of_squares_': mul(mul(inv, inv), sel(fld(th, 'sums_'), add(idx, ONE))),
            }
            for fn_, w_ in want.items():
                check_equal(ctx, 'R4.bin_' + fn_.strip('_'), fsite(r) + ':' + fn_,
                            'field %s of bin k of distribution d (full call count, division by the bin area, '
                            'same flat index as the fill)' % fn_, fld(b, fn_), w_)
        ctx.guard('R4', fsite(r), r4)

    # ---------------------------------------------------------------- R3 mid points order
    for nm, fmin, fsize, which in (('hep::mid_points_x', 'x_min_', 'bin_size_x_', 'x'),
                                   ('hep::mid_points_y', 'y_min_', 'bin_size_y_', 'y')):
        f = p.one(nm)
        ctx.analysed(f)

        def r3(f=f, fmin=fmin, fsize=fsize, which=which):
            s, ex = summarise(p, f)
            PR_ = fld(sym('result'), 'parameters_')
            r = s.ret
            if not (isinstance(r, tuple) and r[0] == 'vcomp2' and r[1] == T.vempty()):
                raise AnalysisBroken('%s is not a nested (y outer, x inner) enumeration' % f.name)
            _, v0, oy, lo, hi, ix, lo2, hi2, g, body = r
            if (lo, hi, lo2, hi2, g) == (ZERO, fld(PR_, 'bins_y_'), ZERO, fld(PR_, 'bins_x_'), T.TRUE):
                ctx.holds('R3.order', fsite(f), 'mid points enumerated y outer, x inner: the order of '
                          'the flat bin index')
            else:
                ctx.violation('R3.order', fsite(f), 'mid points are not enumerated y outer / x inner '
                              'over all bins', {'outer': [T.pretty(lo), T.pretty(hi)],
                                                'inner': [T.pretty(lo2), T.pretty(hi2)]})
            var = ix if which == 'x' else oy
            want = add(fld(PR_, fmin), mul(add(var, num('1/2')), fld(PR_, fsize)))
            check_equal(ctx, 'R3.mid_point', fsite(f), 'mid point of bin = min + (k + 1/2)*size', body, want)
        ctx.guard('R3', fsite(f), r3)

    # ---------------------------------------------------------------- R6 binning parameters
    dctors = [c for c in instances(p, 'hep::distribution_parameters::distribution_parameters')
              if not c.is_implicit and not (len(c.params) == 1 and 'istream' in (c.params[0].type or ''))]
    ctx.count('distribution_parameters constructors', len(dctors), 2)
    for c in dctors:
        ctx.analysed(c)

        def rdp(c=c):
            s, ex = summarise(p, c)
            th_ = s.this
            names = [q.name for q in c.params]
            if len(names) == 7:
                bx, by, x0, x1, y0, y1, nm = [sym(n_) for n_ in names]
            elif len(names) == 4:
                bx, x0, x1, nm = [sym(n_) for n_ in names]
                by, y0, y1 = ONE, ZERO, ONE
            else:
                raise AnalysisBroken('unknown distribution_parameters constructor')
            want = {'bins_x_': bx, 'bins_y_': by, 'x_min_': x0, 'y_min_': y0,
                    'bin_size_x_': div(sub(x1, x0), bx), 'bin_size_y_': div(sub(y1, y0), by), 'name_': nm}
            for fn_, w_ in want.items():
                check_equal(ctx, 'R6.binning_parameters', fsite(c) + ':' + fn_, '%s of the binning [min, max) in '
                            'bins equal steps' % fn_, fld(th_, fn_), w_)
        ctx.guard('R6', fsite(c), rdp)
    for getter, member in (('bins_x', 'bins_x_'), ('bins_y', 'bins_y_'), ('x_min', 'x_min_'), ('y_min', 'y_min_'),
                           ('bin_size_x', 'bin_size_x_'), ('bin_size_y', 'bin_size_y_')):
        gf = p.one('hep::distribution_parameters::' + getter)

        def rgp(gf=gf, member=member, getter=getter):
            s, ex = summarise(p, gf)
            if s.ret == fld(th, member):
                ctx.holds('R6.getters', fsite(gf), '%s() returns %s' % (getter, member))
            else:
                ctx.violation('R6.getters', fsite(gf), '%s() does not return %s' % (getter, member),
                              {'returns': T.pretty(s.ret)[:200]})
        ctx.guard('R6.getters', fsite(gf), rgp)

    # ---------------------------------------------------------------- R4 projector passes value*weight
    adds = [a for a in instances(p, 'hep::projector::add')]
    ctx.count('projector::add definitions', len(adds), 2)
    for a in adds:
        ctx.analysed(a)

        def rp(a=a):
            tgt = 'hep::accumulator::add_to_1d_distribution' if len(a.params) == 3 else \
                'hep::accumulator::add_to_2d_distribution'
            s, ex = summarise(p, a, opaque={tgt})
            calls = [e for e, l in flat_effects(s.effects) if e['kind'] == 'hcall' and e['name'] == tgt]
            if len(calls) != 1 or calls[0]['pc'] != ():
                ctx.violation('R4.projector', fsite(a), 'projector::add does not forward to %s exactly once' % tgt)
                return
            args = calls[0]['args']
            w = ('vcall', 'hep::mc_point::weight', fld(th, 'point_'))
            want = [sym(q.name) for q in a.params[:-1]] + [mul(sym(a.params[-1].name), w)]
            if len(args) == len(want) and all(T.same(x, y) for x, y in zip(args, want)):
                ctx.holds('R4.projector', fsite(a), 'projector forwards (index, coordinates, value * '
                          'point.weight()) of the point the integrand was called with')
            else:
                ctx.violation('R4.projector', fsite(a), 'projector does not forward value * point.weight()',
                              {'args': [T.pretty(x)[:200] for x in args]})
        ctx.guard('R4.projector', fsite(a), rp)
