"""C06 - non-finite evaluations are counted but never contaminate results or adaptation."""
from .. import terms as T
from .. import fpclass as fp
from ..terms import sym, add, mul, sub, div, ZERO, ONE, fld, sel, ite
from .common import *
from .C02 import counter_cells, ACC_OPAQUE, delta_plus


def pc_truth(pc, env):
    """truth set of the conjunction of a path condition, refining left to right"""
    r = fp.BT
    tainted = False
    why = None
    for c in pc:
        b = fp.evb(c, env)
        tainted = tainted or b.tainted
        why = why or b.why
        if not (b.cls & fp.BT):
            return fp.Result(fp.BF, tainted, why)
        if b.cls & fp.BF:
            r = fp.BTOP
        env = fp.refine(c, env, True)
    return fp.Result(r, tainted, why)


def check(ctx):
    p = ctx.prog
    # all arithmetic behind this property happens in the numeric type T of the instantiation
    single_precision(ctx, 'prec.single_type', ['hep::accumulator::', 'hep::accumulate', 'hep::multi_channel_refine_weights', 'hep::vegas_refine_pdf'], 1)
    ctx.assume('finite (x) finite stays finite: overflow of v*v or v*v*w for finite v is outside '
               'the premise of the property')

    # ---------------------------------------------------------------- R1 invoke
    ninv = 0
    for f in instances(p, 'hep::accumulator::invoke'):
        ctx.analysed(f)
        ninv += 1

        def r1(f=f):
            s, ex = summarise(p, f, opaque={'hep::accumulate'})
            where = fsite(f)
            uc = [e for e, l in flat_effects(s.effects) if e['kind'] == 'ucall']
            if len(uc) != 1:
                raise AnalysisBroken('integrand call not identified in invoke')
            fv = ('ucall', uc[0]['id'], uc[0]['functor'])
            w = None
            for e, l in flat_effects(s.effects):
                if e['kind'] in ('vcall', 'hcall') and e['name'].endswith('::weight'):
                    w = (e['kind'], e['name'], e['obj']) + tuple(e['args'])
            if w is None:
                raise AnalysisBroken('point weight not identified in invoke')
            acc = [e for e, l in flat_effects(s.effects) if e['kind'] == 'hcall'
                   and e['name'] == 'hep::accumulate']
            nzc, finc = counter_cells(s.this)
            bad = []
            nscen = 0
            for cf in fp.ALL:
                for cw in fp.ALL:
                    env = fp.Env({fv: cf, w: cw})
                    prod = fp.mul1(cf, cw)
                    nscen += 1
                    ret = fp.ev(s.ret, env)
                    nz = fp.ev(nzc, env)
                    fin = fp.ev(finc, env)
                    reach = 0
                    vals = 0
                    for a in acc:
                        t = pc_truth(a['pc'], env)
                        if t.tainted:
                            raise AnalysisBroken('accumulate guard depends on an unknown value: %s' % t.why)
                        reach |= (t.cls & fp.BT)
                        if t.cls & fp.BT:
                            e2 = env
                            for c in a['pc']:
                                e2 = fp.refine(c, e2, True)
                            vals |= fp.ev(accumulate_args(p, a)[0][3], e2).cls
                    if ret.tainted or nz.tainted or fin.tainted:
                        raise AnalysisBroken('invoke summary depends on an unknown value: %s'
                                             % (ret.why or nz.why or fin.why))
                    scen = 'f=%s w=%s' % (fp.NAMES[cf], fp.NAMES[cw])
                    if cf == fp.ZERO:
                        if reach & fp.BT or nz.cls != fp.ZERO or fin.cls != fp.ZERO or ret.cls != fp.ZERO:
                            bad.append((scen, 'a zero value must leave sums and counters untouched and return 0',
                                        fp.showb(reach or fp.BF), fp.show(nz.cls), fp.show(fin.cls), fp.show(ret.cls)))
                    elif prod & fp.NONFINITE:
                        if reach & fp.BT or nz.cls != fp.POS or fin.cls != fp.ZERO or ret.cls != fp.ZERO:
                            bad.append((scen, 'non-finite f*w must not be accumulated, counts as non-zero only, returns 0',
                                        fp.showb(reach or fp.BF), fp.show(nz.cls), fp.show(fin.cls), fp.show(ret.cls)))
                    else:
                        if reach != fp.BT or nz.cls != fp.POS or fin.cls != fp.POS or \
                                (ret.cls & ~prod) or (vals & ~prod):
                            bad.append((scen, 'finite non-zero f*w must be accumulated once and counted as non-zero and finite',
                                        fp.showb(reach or fp.BF), fp.show(nz.cls), fp.show(fin.cls), fp.show(ret.cls)))
            if bad:
                ctx.violation('R1.classes', where, 'invoke mishandles %d of %d (f, w) classes; first: %s - %s'
                              % (len(bad), nscen, bad[0][0], bad[0][1]),
                              {'scenarios': [dict(zip(('scenario', 'requirement', 'accumulate_reachable',
                                                       'non_zero_increment', 'finite_increment', 'returned'), b))
                                             for b in bad[:6]]})
            else:
                ctx.holds('R1.classes', where, 'all %d (f, w) class pairs: zero -> nothing; non-finite '
                          'f*w -> non_zero only, returns 0; finite -> accumulated and counted' % nscen)
        ctx.guard('R1', fsite(f), r1)
    ctx.count('accumulator::invoke instantiations', ninv, 6)

    # ---------------------------------------------------------------- R2 distributions
    nd = 0
    for name in ('hep::accumulator::add_to_1d_distribution', 'hep::accumulator::add_to_2d_distribution'):
        for f in instances(p, name):
            ctx.analysed(f)
            nd += 1

            def r2(f=f):
                s, ex = summarise(p, f, opaque={'hep::accumulate'})
                where = fsite(f)
                v = sym('value')
                acc = [e for e, l in flat_effects(s.effects) if e['kind'] == 'hcall'
                       and e['name'] == 'hep::accumulate']
                if not acc:
                    raise AnalysisBroken('no accumulate() call in %s' % f.name)
                bad = []
                for cv in (fp.NAN, fp.PINF, fp.NINF):
                    env = fp.Env({v: cv})
                    for name_ in ('x', 'y'):
                        env.vals[sym(name_)] = fp.TOP
                    for a in acc:
                        t = pc_truth(a['pc'], env)
                        if t.cls & fp.BT:
                            bad.append('value=%s reaches accumulate at %s' % (fp.NAMES[cv], a['where']))
                    th = fp.resolve(s.this, env)
                    for fn_ in ('sums_', 'non_zero_calls_', 'finite_calls_', 'compensations_'):
                        if fld(th, fn_) != fld(sym('this'), fn_):
                            bad.append('value=%s changes %s' % (fp.NAMES[cv], fn_))
                if bad:
                    ctx.violation('R2.finite_only', where, 'a non-finite value handed to a distribution '
                                  'is not discarded: ' + bad[0], {'all': bad[:8]})
                else:
                    ctx.holds('R2.finite_only', where, 'NaN, +inf and -inf values reach no bin and '
                              'change no counter')
                # the accumulated value is the (finite) value itself
                for a in acc:
                    if accumulate_args(p, a)[0][3] == v:
                        ctx.holds('R2.value', '%s:%s' % (a['where'], f.name), 'the bin accumulates the value handed in')
                    else:
                        ctx.violation('R2.value', '%s:%s' % (a['where'], f.name), 'the bin accumulates a '
                                      'different value', {'accumulated': T.pretty(accumulate_args(p, a)[0][3])[:300]})
            ctx.guard('R2', fsite(f), r2)
    ctx.count('distribution fill functions', nd, 2)

    # ---------------------------------------------------------------- R3 VEGAS adjustment
    for f in instances(p, 'hep::vegas_iteration'):
        ctx.analysed(f)

        def r3(f=f):
            s, ex = summarise(p, f, opaque=ACC_OPAQUE)
            inv = [(e, l) for e, l in flat_effects(s.effects)
                   if e['kind'] == 'hcall' and e['name'] == 'hep::accumulator::invoke']
            if len(inv) != 1 or len(inv[0][1]) != 1:
                raise AnalysisBroken('per-call loop of vegas_iteration not recognised')
            e, loops = inv[0]
            ls = s.loops[loops[0]['loop']]
            where = '%s:vegas_iteration' % ls.node.where()
            v = ('hcall', 'hep::accumulator::invoke', e['obj']) + tuple(e['args'])
            u = upd_by_final(ls, fld(s.ret, 'adjustment_data_'))
            if u is None or not (isinstance(u['next'], tuple) and u['next'][0] == 'vscatter'):
                raise AnalysisBroken('adjustment data update of vegas_iteration not recognised')
            cells = u['next'][5]
            for cell in cells[1:]:
                g = cell[2]
                atoms = value_atoms(g)
                others = [a for a in atoms if a != v]
                if others:
                    ctx.violation('R3.sanitised', where, 'the value added to the adjustment data does '
                                  'not only depend on the sanitised value returned by invoke',
                                  {'depends_on': [T.pretty(a)[:200] for a in others[:4]]})
                    continue
                z = fp.ev(g, fp.Env({v: fp.ZERO}))
                fin = fp.ev(g, fp.Env({v: fp.FINITE}))
                if z.cls != fp.ZERO or (fin.cls & fp.NONFINITE):
                    ctx.violation('R3.sanitised', where, 'a zero (sanitised) value does not add zero / '
                                  'a finite value does not add a finite datum',
                                  {'zero->': fp.show(z.cls), 'finite->': fp.show(fin.cls)})
                else:
                    ctx.holds('R3.sanitised', where, 'adjustment datum depends only on the value '
                              'returned by invoke; zero adds zero, finite adds finite')
        ctx.guard('R3', fsite(f), r3)

    # ---------------------------------------------------------------- R4 multi-channel adjustment
    for f in instances(p, 'hep::multi_channel_iteration'):
        ctx.analysed(f)

        def r4(f=f):
            s, ex = summarise(p, f, opaque=ACC_OPAQUE)
            inv = [(e, l) for e, l in flat_effects(s.effects)
                   if e['kind'] == 'hcall' and e['name'] == 'hep::accumulator::invoke']
            if len(inv) != 1 or len(inv[0][1]) != 1:
                raise AnalysisBroken('per-call loop of multi_channel_iteration not recognised')
            e, loops = inv[0]
            ls = s.loops[loops[0]['loop']]
            where = '%s:multi_channel_iteration' % ls.node.where()
            v = ('hcall', 'hep::accumulator::invoke', e['obj']) + tuple(e['args'])
            u = upd_by_final(ls, fld(s.ret, 'adjustment_data_'))
            if u is None:
                raise AnalysisBroken('adjustment data update of multi_channel_iteration not found')
            env0 = fp.Env({v: fp.ZERO})
            # everything else (weight, densities, jacobian) may be anything, NaN included
            nxt0 = resolve_all_unknown(u['next'], env0)
            if nxt0 == u['pre']:
                ctx.holds('R4.zero_skips', where, 'a zero (sanitised) value writes nothing to the '
                          'adjustment data, whatever the weight is')
            else:
                ctx.violation('R4.zero_skips', where, 'with a zero (sanitised) value the adjustment '
                              'data are still written (the weight may be NaN there)',
                              {'next': T.pretty(nxt0)[:500]})
            # the map is asked for densities only for non-zero values (shared with C17)
            for ue, ul in flat_effects(s.effects):
                if ue['kind'] == 'ucall' and ue['args'] and ue['args'][-1] == ('enum', 'calculate_densities'):
                    t = pc_truth(ue['pc'], env0)
                    if t.cls & fp.BT:
                        ctx.violation('R4.zero_skips', '%s:multi_channel_iteration' % ue['where'],
                                      'densities are requested from the kernel although the value is zero')
        ctx.guard('R4', fsite(f), r4)
    _shared(ctx)
    # under MPI the counters of non-zero and of finite evaluations travel through the reduction:
    # they must come back in the slots they were packed into (shared with C04)
    share(ctx, 'C04', 'R6/C04.', ['R5.pack_layout', 'R5.unpack'])



def _shared(ctx):
    from . import C07, C08
    from .common import Proxy, share
    share(ctx, 'C08', 'R5/C08.', ['R1.', 'R6.'])
    share(ctx, 'C07', 'R5/C07.', ['R2.skip', 'R4.norm_nonzero'])
    # a non-finite density of ANY channel (also a disabled one) must make the point weight non-finite,
    # so that the point is discarded as a whole: the weight is J / sum over all channels (shared with C01)
    share(ctx, 'C01', 'R5/C01.', ['R2.weight'])


def value_atoms(t):
    """Maximal non-arithmetic sub-terms of t."""
    out = []

    def go(x):
        if not isinstance(x, tuple) or not x:
            return
        if x[0] in ('+', '-', '*', '/', 'neg'):
            for c in x[1:]:
                go(c)
        elif x[0] == 'num':
            return
        elif x[0] == 'fn':
            for c in x[2:]:
                go(c)
        elif x[0] == 'ite':
            for c in x[1:]:
                go(c)
        elif x[0] in ('<', '<=', '>', '>=', '==', '!=', 'and', 'or', 'not'):
            for c in x[1:]:
                go(c)
        else:
            if x not in out:
                out.append(x)
    go(t)
    return out


def resolve_all_unknown(t, env):
    """resolve ite's under env where all atoms without a class are TOP (not tainted)"""
    class E(fp.Env):
        pass
    e = env.copy()
    for a in value_atoms(t):
        if a not in e.vals:
            e.vals[a] = fp.TOP
    # conditions: collect atoms inside conditions too
    for s_ in T.subterms(t):
        if isinstance(s_, tuple) and s_ and s_[0] == 'ite':
            for a in value_atoms(s_[1]):
                if a not in e.vals:
                    e.vals[a] = fp.TOP
    return fp.resolve(t, e)
