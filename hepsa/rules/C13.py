"""C13 - combining results obeys the documented formulas (DESIGN.md section 4, C13)."""
import os
import sys

from .. import terms as T
from ..terms import sym, add, mul, sub, div, ZERO, ONE, fld, sel
from .common import *

sys.path.insert(0, os.path.dirname(os.path.dirname(os.path.dirname(os.path.abspath(__file__)))))
from spec import formulas as F   # noqa

R = sym('R')
n = sym('n')
K = sym('k')


def it_args():
    return {'begin': ('iter', R, ZERO), 'end': ('iter', R, n)}


def value_of(p, obj):
    f = p.one('hep::mc_result::value')
    s, ex = summarise(p, f, this=obj)
    return s.ret


def variance_of(p, obj):
    f = p.one('hep::mc_result::variance')
    s, ex = summarise(p, f, this=obj)
    return s.ret


def reductions_order_independent(ctx, rule, f, s):
    """R4: every loop-carried location is a commutative reduction (or an append in index order
    of per-bin values) whose term depends on the current element only."""
    ok = True
    for l in s.loops:
        for label, u in l.updates.items():
            where = '%s:%s' % (l.node.where(), strip_targs(f.qualname).replace('hep::', ''))
            if u['kind'] in ('sum', 'prod'):
                body = u['body']
                probe = T.subst(body, {sel(R, l.idx): sym('__elem__')})
                if T.occurs(probe, l.idx):
                    ctx.violation(rule, where, 'reduction term of `%s` depends on the position '
                                  'of the element, not only on the element' % label,
                                  {'term': T.pretty(body)[:600]})
                    ok = False
                else:
                    ctx.holds(rule, where + ':' + label, 'commutative reduction over the current '
                              'element only: result independent of the order of the results')
            elif u['kind'] in ('same', 'append', 'map'):
                continue
            else:
                ctx.violation(rule, where, 'loop-carried `%s` is not a commutative reduction (%s): '
                              'the combination depends on the order of the results'
                              % (label, u['kind']), {'next': T.pretty(u['next'])[:600]})
                ok = False
    return ok


def check(ctx):
    p = ctx.prog
    no_use_after_move(ctx, 'move.no_use_after_move', ['hep::hep_distribution_accumulator'], opaque={'hep::weighted_with_variance::operator()', 'hep::weighted_equally::operator()'})
    # counters are summed in std::size_t
    counters_full_width(ctx, 'prec.counter_width', ['hep::weighted_with_variance::', 'hep::weighted_equally::', 'hep::chi_square_dof', 'hep::hep_distribution_accumulator', 'hep::create_result', 'hep::accumulate'])
    # all arithmetic behind this property happens in the numeric type T of the instantiation
    single_precision(ctx, 'prec.single_type', ['hep::weighted_with_variance::', 'hep::weighted_equally::', 'hep::chi_square_dof', 'hep::hep_distribution_accumulator', 'hep::create_result', 'hep::mc_result::'], 1)
    ctx.assume('positive variances, calls >= 2 for every combined result (property premise)')

    # ---------------------------------------------------------------- R3 create_result
    cr = p.one('hep::create_result')
    ctx.analysed(cr)

    def r3():
        s, ex = summarise(p, cr)
        v = value_of(p, s.ret)
        var = variance_of(p, s.ret)
        check_equal(ctx, 'R3.value', fsite(cr), 'value(create_result(N,..,v,e))', v, sym('value'))
        check_equal(ctx, 'R3.variance', fsite(cr), 'variance(create_result(N,..,v,e))', var,
                    mul(sym('error'), sym('error')))
        for fld_, par in (('calls_', 'calls'), ('non_zero_calls_', 'non_zero_calls'),
                          ('finite_calls_', 'finite_calls')):
            check_equal(ctx, 'R3.counters', fsite(cr) + ':' + fld_, 'counter ' + fld_,
                        fld(s.ret, fld_), sym(par))
    ctx.guard('R3', fsite(cr), r3)

    # ---------------------------------------------------------------- R1 weighted_with_variance
    nwv = 0
    for f in instances(p, 'hep::weighted_with_variance::operator()'):
        if 'const hep::mc_result' not in f.qualname and nwv:
            pass
        ctx.analysed(f)
        nwv += 1

        def r1(f=f):
            s, ex = summarise(p, f, args=it_args())
            res = s.ret
            where = fsite(f)
            nz_tot = F.counter_sum(R, n, K, 'non_zero_calls_')
            assume = {('!=', _canon_sum(fld(res, 'non_zero_calls_')), ZERO): T.TRUE}
            v = value_of(p, res)
            var = variance_of(p, res)
            # premise: at least one result with non-zero calls
            v = _assume_nonzero(v, fld(res, 'non_zero_calls_'))
            var = _assume_nonzero(var, fld(res, 'non_zero_calls_'))
            check_equal(ctx, 'R1.estimate', where, 'variance-weighted estimate', v,
                        F.wv_estimate(R, n, K))
            check_equal(ctx, 'R1.variance', where, 'variance of the combination', var,
                        F.wv_variance(R, n, K))
            for fld_ in ('calls_', 'non_zero_calls_', 'finite_calls_'):
                check_equal(ctx, 'R1.counters', where + ':' + fld_, 'summed counter ' + fld_,
                            fld(res, fld_), F.counter_sum(R, n, K, fld_))
            reductions_order_independent(ctx, 'R4.order', f, s)
        ctx.guard('R1', fsite(f), r1)
    ctx.count('weighted_with_variance instantiations', nwv, 2)

    # ---------------------------------------------------------------- R2 weighted_equally
    nwe = 0
    for f in instances(p, 'hep::weighted_equally::operator()'):
        ctx.analysed(f)
        nwe += 1

        def r2(f=f):
            s, ex = summarise(p, f, args=it_args())
            where = fsite(f)
            got0 = got1 = gotn = False
            for pc, val in s.returns:
                c = T.conj(pc)
                at0 = pc_under(pc, {n: ZERO})
                at1 = pc_under(pc, {n: ONE})
                at2 = pc_under(pc, {n: T.num(2)})
                if at0 is True and at1 is False and at2 is False:
                    got0 = True
                    for fld_ in ('calls_', 'non_zero_calls_', 'finite_calls_', 'sum_',
                                 'sum_of_squares_'):
                        check_equal(ctx, 'R2.empty', where + ':' + fld_, 'no results -> zero result',
                                    fld(val, fld_), ZERO)
                elif at1 is True and at0 is False and at2 is False:
                    got1 = True
                    if val == sel(R, ZERO):
                        ctx.holds('R2.single', where, 'one result is returned unchanged')
                    else:
                        ctx.violation('R2.single', where, 'one result is not returned unchanged',
                                      {'returned': T.pretty(val)[:400]})
                elif at2 is True and at0 is False and at1 is False and pc_under(pc, {n: T.num(7)}) is True:
                    gotn = True
                    check_equal(ctx, 'R2.mean', where, 'equally weighted mean', value_of(p, val),
                                F.we_mean(R, n, K))
                    check_equal(ctx, 'R2.error', where, 'squared standard error of the mean',
                                variance_of(p, val), F.we_variance(R, n, K))
                    for fld_ in ('calls_', 'non_zero_calls_', 'finite_calls_'):
                        check_equal(ctx, 'R2.counters', where + ':' + fld_, 'summed counter ' + fld_,
                                    fld(val, fld_), F.counter_sum(R, n, K, fld_))
            if not (got0 and got1 and gotn):
                raise AnalysisBroken('weighted_equally: cases 0 / 1 / many not all recognised')
            reductions_order_independent(ctx, 'R4.order', f, s)
        ctx.guard('R2', fsite(f), r2)
    ctx.count('weighted_equally instantiations', nwe, 2)

    # ---------------------------------------------------------------- R5 chi_square_dof
    nchi = 0
    for f in instances(p, 'hep::chi_square_dof'):
        ctx.analysed(f)
        nchi += 1

        def r5(f=f):
            acc = f.targs[0] + '::operator()'
            s, ex = summarise(p, f, args=it_args(), opaque={acc})
            where = fsite(f)
            combined = None
            for e, loops in flat_effects(s.effects):
                if e['kind'] == 'hcall' and e['name'] == acc:
                    combined = ('hcall', acc, e['obj']) + tuple(e['args'])
                    a = e['args']
                    if not (a[0] == ('iter', R, ZERO) and a[1] == ('iter', R, n)):
                        ctx.violation('R5.range', where, 'combined value is not computed from the '
                                      'whole range [begin, end)', {'args': [T.pretty(x) for x in a]})
            if combined is None:
                raise AnalysisBroken('chi_square_dof does not call its Accumulator')
            mean = value_of(p, combined)
            got1 = gotn = False
            for pc, val in s.returns:
                c = T.conj(pc)
                if pc_under(pc, {n: ONE}) is True and pc_under(pc, {n: T.num(2)}) is False and \
                        pc_under(pc, {n: ZERO}) is False:
                    got1 = True
                    if val == ('const', 'inf'):
                        ctx.holds('R5.single', where, 'one result -> infinity')
                    else:
                        ctx.violation('R5.single', where, 'one result does not give infinity',
                                      {'returned': T.pretty(val)[:300]})
                elif pc_under(pc, {n: ONE}) is False and pc_under(pc, {n: T.num(2)}) is True:
                    gotn = True
                    check_equal(ctx, 'R5.formula', where, 'chi^2/dof', val, F.chi2_dof(R, n, K, mean))
            if not (got1 and gotn):
                raise AnalysisBroken('chi_square_dof: cases one / many not recognised')
        ctx.guard('R5', fsite(f), r5)
    ctx.count('chi_square_dof instantiations', nchi, 3)

    # ---------------------------------------------------------------- R4 per-bin combination
    nda = 0
    for f in instances(p, 'hep::hep_distribution_accumulator'):
        ctx.analysed(f)
        nda += 1

        def r4(f=f):
            acc = f.targs[0] + '::operator()'
            s, ex = summarise(p, f, args=it_args(), opaque={acc})
            where = fsite(f)
            res = s.ret
            whole = None
            bins = []
            for e, loops in flat_effects(s.effects):
                if e['kind'] == 'hcall' and e['name'] == acc:
                    if loops:
                        bins.append((e, loops))
                    else:
                        whole = e
            if whole is None or len(bins) != 1:
                raise AnalysisBroken('expected one integrated and one per-bin use of the Accumulator')
            a = whole['args']
            if a[0] == ('iter', R, ZERO) and a[1] == ('iter', R, n):
                ctx.holds('R4.integrated', where, 'integrated result = Accumulator over all results')
            else:
                ctx.violation('R4.integrated', where, 'integrated result is not the Accumulator '
                              'applied to the whole range', {'args': [T.pretty(x) for x in a]})
            wres = ('hcall', acc, whole['obj']) + tuple(a)
            for fld_ in ('calls_', 'non_zero_calls_', 'finite_calls_', 'sum_', 'sum_of_squares_'):
                check_equal(ctx, 'R4.fields', where + ':' + fld_, 'field %s of the returned result' % fld_,
                            fld(res, fld_), fld(wres, fld_))
            e, loops = bins[0]
            if len(loops) != 2:
                raise AnalysisBroken('per-bin combination is not nested in (distribution, bin) loops')
            j, k = loops[0]['idx'], loops[1]['idx']
            dist0 = fld(sel(R, ZERO), 'distributions_')
            want_j = (ZERO, T.size(dist0))
            want_k = (ZERO, T.size(fld(sel(dist0, j), 'results_')))
            # ranges on the paths that reach the per-bin combination with a non-empty list of results
            # (an empty list has nothing to combine, however the count of distributions is obtained)
            pcs = tuple(e['pc']) + (('!=', n, ZERO),)
            hj = simplify_under(loops[0]['hi'], pcs)
            hk = simplify_under(loops[1]['hi'], pcs)
            okr = (loops[0]['lo'], hj) == want_j and (loops[1]['lo'], hk) == want_k
            if okr:
                ctx.holds('R4.ranges', where, 'per-bin combination runs over every distribution '
                          'and every bin')
            else:
                ctx.violation('R4.ranges', where, 'per-bin combination does not cover every '
                              'distribution and bin', {'j': [T.pretty(loops[0]['lo']), T.pretty(loops[0]['hi'])],
                                                       'k': [T.pretty(loops[1]['lo']), T.pretty(loops[1]['hi'])]})
            b, en = e['args']
            i = None
            ok = False
            if isinstance(b, tuple) and b[0] == 'iter' and isinstance(b[1], tuple) and b[1][0] == 'vcomp':
                _, v0, ii, lo, hi, g, x = b[1]
                want = sel(fld(sel(fld(sel(R, ii), 'distributions_'), j), 'results_'), k)
                if v0 == T.vempty() and lo == ZERO and hi == n and g == T.TRUE and x == want \
                        and b[2] == ZERO and en == ('iter', b[1], n):
                    ok = True
            # the combined bins are assembled into the returned distributions: distribution j holds exactly its own
            # bins, in order, with the parameters of distribution j
            dres = simplify_under(fld(res, 'distributions_'), (('!=', n, ZERO),))
            binres = ('hcall', acc, e['obj']) + tuple(e['args'])
            want_d = ('vcomp', T.vempty(), j, ZERO, T.size(dist0), T.TRUE,
                      None)
            ok_a = False
            if isinstance(dres, tuple) and dres and dres[0] == 'vcomp' and dres[1] == T.vempty() and \
                    (dres[3], simplify_under(dres[4], pcs)) == want_j and dres[5] == T.TRUE:
                jj = dres[2]
                el = dres[6]
                par = fld(el, 'parameters_')
                rs = fld(el, 'results_')
                ok_a = par == fld(sel(dist0, jj), 'parameters_') and isinstance(rs, tuple) and rs and \
                    rs[0] == 'vcomp' and rs[1] == T.vempty() and rs[3] == ZERO and \
                    simplify_under(rs[4], pcs) == T.size(fld(sel(dist0, jj), 'results_')) and rs[5] == T.TRUE and \
                    T.subst(rs[6], {rs[2]: k, jj: j}) == binres
            if ok_a:
                ctx.holds('R4.assembled', where, 'distribution j of the combination = (parameters of distribution j, '
                          'its combined bins in order, nothing else)')
            elif any(isinstance(t, tuple) and t and t[0] == 'havoc' for t in T.subterms(dres)):
                raise AnalysisBroken('the way the combined bins are put into the returned distributions is not '
                                     'recognised')
            else:
                ctx.violation('R4.assembled', where, 'the returned distributions are not (parameters of distribution '
                              'j, the combined bins of distribution j): e.g. a scratch vector that is not emptied '
                              'between distributions carries the bins of earlier distributions along',
                              {'distributions': T.pretty(dres)[:500]})
            if ok:
                ctx.holds('R4.bins', where, 'bin (j,k) of the combination = Accumulator over bin '
                          '(j,k) of every result, same rule as the integrated result')
            else:
                ctx.violation('R4.bins', where, 'the per-bin input is not bin (j,k) of every result',
                              {'begin': T.pretty(b)[:500], 'end': T.pretty(en)[:500]})
        ctx.guard('R4', fsite(f), r4)
    ctx.count('hep_distribution_accumulator instantiations', nda, 3)
    from .C02 import counters_converted_before_combined
    fs = []
    for nm in ('hep::weighted_with_variance::operator()', 'hep::weighted_equally::operator()', 'hep::chi_square_dof',
               'hep::create_result', 'hep::mc_result::value', 'hep::mc_result::variance'):
        fs += instances(p, nm)[:1]
    counters_converted_before_combined(ctx, 'R1.no_integer_products', fs)
    from .C02 import no_float_narrowing
    fsn = []
    for nm in ('hep::weighted_with_variance::operator()', 'hep::weighted_equally::operator()', 'hep::chi_square_dof',
               'hep::create_result', 'hep::mc_result::value', 'hep::mc_result::variance', 'hep::mc_result::error'):
        fsn += list(p.find(nm))
    no_float_narrowing(ctx, 'R6.no_float_narrowing', fsn)


def _canon_sum(t):
    return t


def _assume_nonzero(term, nz_total):
    """Premise of the property: at least one combined result has non-zero calls."""
    return T.subst(term, {('!=', nz_total, ZERO): T.TRUE, ('==', nz_total, ZERO): T.FALSE})
