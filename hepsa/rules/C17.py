"""C17 - the integrand and the channel map are called under the documented protocol."""
from .. import terms as T
from ..terms import sym, fld, sel, ZERO
from .common import *
from .C02 import ACC_OPAQUE
from .common import Proxy, share


def check(ctx):
    p = ctx.prog
    # all arithmetic behind this property happens in the numeric type T of the instantiation
    single_precision(ctx, 'prec.single_type', ['hep::discrete_distribution::', 'hep::multi_channel_iteration', 'hep::vegas_icdf', 'hep::vegas_iteration', 'hep::plain_iteration'], 1)
    ctx.assume('user map / integrand are opaque: what they do with the buffers they are handed is '
               'outside the code base')
    # ---------------------------------------------------------------- R1 multi-channel call sequence
    ks = instances(p, 'hep::multi_channel_iteration')
    ctx.count('multi_channel_iteration instantiations', len(ks), 2)
    for f in ks:
        ctx.analysed(f)

        def r1(f=f):
            s, ex = summarise(p, f, opaque=ACC_OPAQUE)
            where = fsite(f)
            effs = list(flat_effects(s.effects))
            maps = [(i, e, l) for i, (e, l) in enumerate(effs) if e['kind'] == 'ucall' and 'Map' in e['functor'] or
                    (e['kind'] == 'ucall' and e['args'] and isinstance(e['args'][-1], tuple) and e['args'][-1][0] == 'enum')]
            coords = [m for m in maps if m[1]['args'][-1] == ('enum', 'calculate_coordinates')]
            dens = [m for m in maps if m[1]['args'][-1] == ('enum', 'calculate_densities')]
            inv = [(i, e, l) for i, (e, l) in enumerate(effs) if e['kind'] == 'hcall' and e['name'] == 'hep::accumulator::invoke']
            draws = [(i, e, l) for i, (e, l) in enumerate(effs) if e['kind'] == 'draw']
            if len(coords) != 1 or len(inv) != 1:
                ctx.violation('R1.sequence', where, 'per call the map must be asked for coordinates exactly '
                              'once and the integrand evaluated once (found %d / %d)' % (len(coords), len(inv)))
                return
            ic, ce, cl = coords[0]
            ii, ie, il = inv[0]
            ok_order = all(i < ic for i, e, l in draws) and ic < ii and all(i > ii for i, e, l in dens) and ce['pc'] == ()
            if ok_order:
                ctx.holds('R1.sequence', where, 'draws -> map(calculate_coordinates) -> integrand; densities '
                          'are requested from the kernel only after the integrand ran')
            else:
                ctx.violation('R1.sequence', where, 'the order draws -> map(coordinates) -> integrand -> '
                              'map(densities) is broken', {'positions': {'coordinates': ic, 'invoke': ii,
                                                                         'densities': [i for i, e, l in dens]}})
            # the point is built from the very objects handed to the map
            pt = ie['args'][1]
            if not (isinstance(pt, tuple) and pt[0] == 'obj'):
                raise AnalysisBroken('the point handed to invoke is not constructed in the kernel')
            st = s.loops[il[0]['loop']]
            binding = {}
            for nm in ('point_', 'coordinates_', 'densities_', 'channel_weights_', 'enabled_channels_', 'map_'):
                r = fld(pt, nm)
                binding[nm] = r[1] if isinstance(r, tuple) and r[0] == 'ref' else None
            outs = dict(ce['outs'])     # arg position -> lvalue written by the map
            want_out = {2: binding['coordinates_'], 4: binding['densities_']}
            ok_bind = all(binding[k] is not None for k in binding) and outs.get(2) == want_out[2] and \
                outs.get(4) == want_out[4] and fld(pt, 'channel_') == ce['args'][0]
            arg_nodes = ce.get('argnodes') or []
            # one map OBJECT serves both steps of the protocol: the coordinate call is made on the very
            # object the point refers to for its density call (a copy would not share cached state)
            if ce.get('functor_lv') is not None and binding['map_'] is not None and ce['functor_lv'] == binding['map_']:
                ctx.holds('R1.same_map_object', where, 'coordinates and densities are requested from the same '
                          'map object (the integrand\'s)')
            else:
                ctx.violation('R1.same_map_object', where, 'the coordinate call is made on a different map object '
                              'than the one the point uses for its density call (e.g. a copy): a map that carries '
                              'state from the first step to the second returns densities that do not belong to '
                              'the point', {'coordinate_call_on': str(ce.get('functor_lv')), 'point_refers_to': str(binding['map_'])})
            if ok_bind:
                ctx.holds('R1.same_objects', where, 'the point refers to the coordinate and density buffers '
                          'the map just filled and carries the channel the map was called with')
            else:
                ctx.violation('R1.same_objects', where, 'the point is not built from the objects that were '
                              'handed to the map', {'bindings': {k: str(v) for k, v in binding.items()},
                                                    'map_outputs': {k: str(v) for k, v in outs.items()}})
            # density request (visible when weight() is inlined): same channel, numbers and buffers, untouched
            for i, de, dl in dens:
                uid = ce['id']
                want = [ce['args'][0], ce['args'][1], ('uout', uid, 2), ce['args'][3], ('uout', uid, 4),
                        ('enum', 'calculate_densities')]
                w = '%s:multi_channel_point2::weight' % de['where']
                if de['args'] == want:
                    ctx.holds('R1.densities_same_buffers', w, 'densities are requested with the same channel, '
                              'random numbers, enabled channels and the coordinate / density buffers exactly '
                              'as the coordinate call left them')
                else:
                    ctx.violation('R1.densities_same_buffers', w, 'the density request does not see the same '
                                  'channel / numbers / untouched buffers as the coordinate request',
                                  {'got': [T.pretty(a)[:120] for a in de['args']],
                                   'want': [T.pretty(a)[:120] for a in want]})
                v = ('hcall', 'hep::accumulator::invoke', ie['obj']) + tuple(ie['args'])
                pc0 = de['pc'][0] if de['pc'] else None
                if pc0 in (T.lnot(('==', v, ZERO)), ('!=', v, ZERO)):
                    ctx.holds('R2.weight_only_if_nonzero', w, 'the kernel asks for the weight (densities) only '
                              'when the sanitised value is non-zero')
                else:
                    ctx.violation('R2.weight_only_if_nonzero', w, 'the kernel requests densities although the '
                                  'value may be zero', {'condition': T.pretty(T.conj(de['pc']))[:300]})
            # random numbers handed to the map are canonical numbers only
            rn = ce['args'][1]
            ok_rn = isinstance(rn, tuple) and rn[0] == 'vmap' and rn[3] == ZERO and \
                isinstance(rn[5], tuple) and rn[5][0] == 'rand' and T.size(rn[1]) == rn[4]
            if ok_rn:
                ctx.holds('R4.unit_interval', where, 'every random number handed to the map was written by '
                          'generate_canonical only: half-open [0,1)')
            else:
                ctx.violation('R4.unit_interval', where, 'the random numbers handed to the map are not all '
                              'fresh canonical numbers', {'random_numbers': T.pretty(rn)[:300]})
        ctx.guard('R1', fsite(f), r1)

    # weight(): arguments are the objects bound in the constructor
    for c in [c for c in instances(p, 'hep::multi_channel_point2::multi_channel_point2') if not c.is_implicit and len(c.params) == 7]:
        ctx.analysed(c)

        def rc(c=c):
            s, ex = summarise(p, c)
            # parameters by position (point, coordinates, channel, densities, channel_weights,
            # enabled_channels, map): their names are free
            want = {'densities_': 3, 'channel_weights_': 4, 'enabled_channels_': 5, 'map_': 6, 'coordinates_': 1,
                    'point_': 0}
            bad = []
            for m_, pos_ in want.items():
                r = fld(s.this, m_)
                if not (isinstance(r, tuple) and r[0] == 'ref' and r[1][1] == c.params[pos_].id):
                    bad.append('%s is not bound to parameter %d (%s)' % (m_, pos_ + 1, c.params[pos_].name))
            if fld(s.this, 'channel_') != sym(c.params[2].name):
                bad.append('channel_ is not the channel parameter')
            if fld(s.this, 'weight_') != ZERO:
                bad.append('the lazy weight does not start as "not computed" (0)')
            if bad:
                ctx.violation('R1.point_binding', fsite(c), bad[0], {'all': bad})
            else:
                ctx.holds('R1.point_binding', fsite(c), 'every reference member of the point is bound to the '
                          'constructor argument of the same role')
        ctx.guard('R1.point_binding', fsite(c), rc)

    # the density call is made at most once per point: weight() computes only while the stored weight is still the
    # "not computed" value and stores what it computed (the protocol allows one density call per evaluated point;
    # invoke, the kernel and every projector.add ask for the weight again)
    for wf in instances(p, 'hep::multi_channel_point2::weight'):
        ctx.analysed(wf)

        def rlazy(wf=wf):
            s, ex = summarise(p, wf)
            w0 = fld(sym('this'), 'weight_')
            uc = [e for e, l in flat_effects(s.effects) if e['kind'] == 'ucall']
            if len(uc) != 1:
                raise AnalysisBroken('expected exactly one call of the channel map in weight()')
            when_set = T.subst(T.conj(uc[0]['pc']), {('==', w0, ZERO): T.FALSE, ('==', ZERO, w0): T.FALSE,
                                                    ('!=', w0, ZERO): T.TRUE, ('!=', ZERO, w0): T.TRUE})
            when_set = simplify_under(when_set, ())
            stored = fld(s.this, 'weight_')
            if when_set == T.FALSE and stored != w0:
                ctx.holds('R2.density_call_once', fsite(wf), 'the map is asked for densities only while the stored weight '
                          'is 0 (not computed yet) and the result is stored: later weight() calls return the stored value')
            else:
                ctx.violation('R2.density_call_once', fsite(wf), 'weight() asks the map for densities also when the weight '
                              'has been computed already: the map is called once per use of the weight instead of once '
                              'per point', {'call_condition_when_weight_set': T.pretty(when_set)[:200]})
        ctx.guard('R2.density_call_once', fsite(wf), rlazy)
    # ---------------------------------------------------------------- R2 who may call weight()
    def r2():
        sites = []
        for f in p.funcs.values():
            if f.body is None or f.is_pattern:
                continue
            for n in f.body.walk():
                if n.op == 'mcall' and n.a.get('name') == 'weight' and n.a.get('hep'):
                    cal = p.funcs.get(n.a['id'])
                    if cal is not None and cal.record is not None and 'point' in cal.record.qualname:
                        sites.append((f, n))
        locs = sorted(set((strip_targs(f.qualname), n.where()) for f, n in sites))
        ctx.count('call sites of point.weight()', len(locs), 5)
        allowed = {'hep::accumulator::invoke': 'guarded', 'hep::projector::add': 'projector',
                   'hep::multi_channel_iteration': 'guarded'}
        seen = set()
        for f, n in sites:
            base = strip_targs(f.qualname)
            key = (base, n.where())
            if key in seen:
                continue
            seen.add(key)
            w = '%s:%s' % (n.where(), base.replace('hep::', ''))
            if base not in allowed:
                ctx.violation('R2.who_may_call_weight', w, 'new call site of point.weight(): for multi-channel '
                              'points this evaluates the map\'s densities outside the documented protocol')
                continue
            if allowed[base] == 'projector':
                ctx.holds('R2.who_may_call_weight', w, 'projector::add: the integrand itself requested the weight')
                continue
            s, ex = summarise(p, f, opaque=(ACC_OPAQUE if base != 'hep::accumulator::invoke' else {'hep::accumulate'}))
            wc = [e for e, l in flat_effects(s.effects)
                  if (e['kind'] in ('vcall', 'hcall') and e['name'].endswith('::weight') and e.get('node') == n.cid)]
            if not wc:
                # inlined (dynamic type known): the density request carries the guard
                wc = [e for e, l in flat_effects(s.effects) if e['kind'] == 'ucall' and e['args']
                      and e['args'][-1] == ('enum', 'calculate_densities')]
            if not wc:
                raise AnalysisBroken('weight() call at %s not found in the summary' % n.where())
            pc = tuple(wc[0]['pc'])
            guarded = len(pc) >= 1 and isinstance(pc[0], tuple) and \
                ((pc[0][0] == '!=' and pc[0][2] == ZERO) or (pc[0][0] == 'not' and pc[0][1][0] == '==' and pc[0][1][2] == ZERO))
            if guarded:
                ctx.holds('R2.who_may_call_weight', w, 'weight() is only evaluated under `value != 0`')
            else:
                ctx.violation('R2.who_may_call_weight', w, 'weight() is evaluated although the integrand value '
                              'may be zero: the map is asked for densities outside the protocol',
                              {'condition': T.pretty(T.conj(pc))[:200]})
    ctx.guard('R2', 'include/hep/mc', r2)

    # ---------------------------------------------------------------- R4 PLAIN: canonical numbers only
    for f in instances(p, 'hep::plain_iteration'):
        ctx.analysed(f)

        def r4(f=f):
            s, ex = summarise(p, f, opaque=ACC_OPAQUE)
            inv = [(e, l) for e, l in flat_effects(s.effects) if e['kind'] == 'hcall' and e['name'] == 'hep::accumulator::invoke']
            if len(inv) != 1:
                raise AnalysisBroken('invoke not found in plain_iteration')
            pt = inv[0][0]['args'][1]
            r = fld(pt, 'point_')
            rn = ex.read(s.state, r[1]) if isinstance(r, tuple) and r[0] == 'ref' else None
            ls = s.loops[inv[0][1][0]['loop']]
            u = upd_by_loc(ls, r[1]) if isinstance(r, tuple) and r[0] == 'ref' else ls.updates.get('random_numbers')
            nxt = u['next'] if u else None
            # every element of the point is a canonical number drawn in this call: the buffer is overwritten
            # element by element, or emptied and refilled
            ok = isinstance(nxt, tuple) and nxt[0] == 'vmap' and nxt[3] == ZERO and T.size(nxt[1]) == nxt[4] and \
                isinstance(nxt[5], tuple) and nxt[5][0] == 'rand'
            ok = ok or (isinstance(nxt, tuple) and nxt[0] == 'vcomp' and nxt[1] == T.vempty() and nxt[3] == ZERO and
                        nxt[5] == T.TRUE and isinstance(nxt[6], tuple) and nxt[6][0] == 'rand')
            if ok:
                ctx.holds('R4.unit_interval', fsite(f), 'PLAIN points consist of fresh canonical numbers only: [0,1)')
            else:
                ctx.violation('R4.unit_interval', fsite(f), 'PLAIN points are not made of fresh canonical '
                              'numbers only', {'random_numbers': T.pretty(nxt)[:300]})
        ctx.guard('R4', fsite(f), r4)

    # ---------------------------------------------------------------- shared rules
    from . import C02, C07, C09
    share(ctx, 'C02', 'R5/C02.', ['R1.once', 'R2.integrand_once'])
    share(ctx, 'C07', 'R4/C07.', ['R1.'])
    share(ctx, 'C09', 'R3/C09.', ['R1.', 'R2.', 'R4.'])
    # the numbers handed to the integrand / the map are generate_canonical<T, digits of T, Engine>
    # itself: drawn in a wider type and narrowed they can round to exactly 1 (shared with C10)
    share(ctx, 'C10', 'R6/C10.', ['R1.template_args', 'R5.factory_dimensions', 'R5.getters'])

