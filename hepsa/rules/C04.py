"""C04 - MPI runs sample the same points as the serial run for every world size."""
from .. import terms as T
from .. import algebra
from .. import symex as SX
from ..terms import sym, add, mul, sub, ZERO, ONE, fld, sel, num
from .common import *
from .common import Proxy, share
from .C12 import DRV_OPAQUE

TWO = num(2)
MPI_TYPES = {'float': 'ompi_mpi_float', 'double': 'ompi_mpi_double', 'long double': 'ompi_mpi_long_double',
             'unsigned int': 'ompi_mpi_unsigned', 'unsigned long': 'ompi_mpi_unsigned_long',
             'unsigned long long': 'ompi_mpi_unsigned_long_long'}


def names_in(node):
    out = []
    for n in node.walk():
        if n.op in ('var', 'fref') and n.a.get('name'):
            out.append(n.a['name'])
    return out


def check(ctx):
    p = ctx.prog
    ctx.assume('MPI_Allreduce(MPI_IN_PLACE, buf, n, type, MPI_SUM, comm) sums element-wise over all '
               'ranks and returns the same vector on every rank; sums agree with the serial run up to '
               'floating-point reassociation (numeric, not decided)')
    R = sym('result')
    INB = sym('in_buffer')
    n0 = T.size(INB)
    dists = fld(R, 'distributions_')

    # ---------------------------------------------------------------- R3 split formulas (C16)
    from . import C16
    share(ctx, 'C16', 'R3/C16.', None)

    # ---------------------------------------------------------------- R4/R5 allreduce_result
    fs = instances(p, 'hep::allreduce_result')
    ctx.count('allreduce_result instantiations', len(fs), 1)
    for f in fs:
        ctx.analysed(f)

        def r45(f=f):
            # parameters by type: (communicator, result, buffer, in_buffer, total_calls) in any order
            roles = allreduce_roles(p)
            R = sym(roles['result'][1])
            INB = sym(roles['inb'][1])
            TOT = sym(roles['total'][1])
            n0 = T.size(INB)
            dists = fld(R, 'distributions_')
            s, ex = summarise(p, f, opaque={'hep::mpi_datatype'})
            where = fsite(f)
            mpis = [e for e, l in flat_effects(s.effects) if e['kind'] == 'mpi' and e['name'] == 'MPI_Allreduce']
            looped = [l for e, l in flat_effects(s.effects) if e['kind'] == 'mpi' and l]
            if len(mpis) != 2 or any(e['pc'] for e in mpis) or looped:
                ctx.violation('R4.collectives_unconditional', where, 'allreduce_result must issue exactly two '
                              'unconditional MPI_Allreduce calls (found %d, conditional: %s)'
                              % (len(mpis), [T.pretty(T.conj(e['pc']))[:80] for e in mpis if e['pc']]))
                return
            ctx.holds('R4.collectives_unconditional', where, 'two MPI_Allreduce calls, unconditional, outside '
                      'any loop: every rank executes the same sequence of collectives')
            dts = [e for e, l in flat_effects(s.effects) if e['kind'] == 'hcall' and e['name'] == 'hep::mpi_datatype']
            bufs = []
            for e in mpis:
                a = e['args']
                lvp = a[1]
                if isinstance(lvp, tuple) and lvp[0] == 'iter' and lvp[2] == ZERO and SX.is_lv(lvp[1]):
                    bufs.append(lvp[1])      # vector.data()
                    continue
                if not (isinstance(lvp, tuple) and lvp[0] == 'ptr' and lvp[1] and lvp[1][2] and lvp[1][2][-1] == ('i', ZERO)):
                    raise AnalysisBroken('receive buffer argument of MPI_Allreduce is not &vector[0]')
                bufs.append(('lv', lvp[1][1], lvp[1][2][:-1]))
            # values of the two buffers when they are reduced
            bterm = ex.param_value(s, roles['out'][1])
            red = [t for t in T.subterms(bterm) if isinstance(t, tuple) and t and t[0] == 'allreduce']
            sred = [t for t in T.subterms(s.ret) if isinstance(t, tuple) and t and t[0] == 'allreduce']
            packs = {}
            for t in set(red + sred):
                packs[repr(t[1])[:40]] = t[1]
            packed = list(set(t[1] for t in red + sred))
            if len(packed) != 2:
                raise AnalysisBroken('expected two reduced buffers, found %d' % len(packed))
            fbuf = [x for x in packed if T.occurs(x, INB)]
            ibuf = [x for x in packed if not T.occurs(x, INB)]
            if len(fbuf) != 1 or len(ibuf) != 1:
                raise AnalysisBroken('cannot tell the floating-point buffer from the counter buffer')
            fbuf, ibuf = fbuf[0], ibuf[0]
            # counts: size of the buffer that is reduced; rank-invariant
            for e, which in zip(mpis, (fbuf, ibuf)):
                w = '%s:allreduce_result' % e['where']
                cnt = e['args'][2]
                ok, wit = algebra.equal(cnt, T.size(which))
                bad_atoms = [t for t in T.subterms(cnt) if isinstance(t, tuple) and t and t[0] in ('sel', 'fld')
                             and not _inside_size(cnt, t)]
                if ok and not bad_atoms:
                    ctx.holds('R5.count', w, 'count = size() of the reduced buffer; depends only on sizes that '
                              'are equal on all ranks (same integrand, same in_buffer length)')
                else:
                    ctx.violation('R5.count', w, 'the element count of the reduction is not the size of the '
                                  'buffer / depends on rank-local data', dict(wit or {}, count=T.pretty(cnt)[:200]))
                nodes = e.get('argnodes') or []
                if len(nodes) >= 5:
                    n5 = names_in(nodes[4])
                    n1 = names_in(nodes[0])
                    if 'ompi_mpi_op_sum' in n5:
                        ctx.holds('R5.op', w, 'reduction operation is MPI_SUM')
                    else:
                        ctx.violation('R5.op', w, 'reduction operation is not MPI_SUM (%s)' % n5)
            # datatype = mpi_datatype<element type of that buffer>
            want_t = [p.numeric, 'unsigned long']
            got_t = [d.get('targs', ('?',))[0] for d in dts]
            if got_t == want_t:
                ctx.holds('R5.datatype', where, 'datatypes are mpi_datatype<%s> for the sums and '
                          'mpi_datatype<std::size_t> for the counters' % p.numeric)
            else:
                ctx.violation('R5.datatype', where, 'MPI datatype does not match the element type of the buffer',
                              {'got': got_t, 'want': want_t})
            # pack layout
            def pack_check(term, init_vals, fields, label):
                ok = isinstance(term, tuple) and term[0] == 'vcomp2' and term[3] == ZERO and term[4] == T.size(dists) \
                    and term[6] == ZERO and term[8] == T.TRUE
                if not ok:
                    return None
                d, b = term[2], term[5]
                bins = fld(sel(dists, d), 'results_')
                if term[7] != T.size(bins):
                    return None
                tup = term[9]
                want = ('tuple',) + tuple(fld(sel(bins, b), fn_) for fn_ in fields)
                if tup != want:
                    return None
                init = term[1]
                vals = []
                cur = init
                while isinstance(cur, tuple) and cur and cur[0] == 'vpush':
                    vals.append(cur[2])
                    cur = cur[1]
                vals.reverse()
                if vals != init_vals:
                    return None
                return cur, d, b
            pf = pack_check(fbuf, [fld(R, 'sum_'), fld(R, 'sum_of_squares_')], ('sum_', 'sum_of_squares_'), 'sums')
            pi = pack_check(ibuf, [fld(R, 'non_zero_calls_'), fld(R, 'finite_calls_')],
                            ('non_zero_calls_', 'finite_calls_'), 'counters')
            if pf is None or pi is None or pf[0] != INB or pi[0] != T.vempty():
                ctx.violation('R5.pack_layout', where, 'pack layout is not in_buffer ++ [sum, sumsq] ++ bins[sum, '
                              'sumsq] / [nz, fin] ++ bins[nz, fin]', {'sums': T.pretty(fbuf)[:400],
                                                                      'counters': T.pretty(ibuf)[:400]})
                return
            ctx.holds('R5.pack_layout', where, 'pack layout: in_buffer ++ [sum, sumsq] ++ per bin [sum, sumsq]; '
                      '[non_zero, finite] ++ per bin [non_zero, finite]')
            # unpack: returned result reads the same positions
            ARF, ARI = ('allreduce', fbuf), ('allreduce', ibuf)
            ret = s.ret
            top = {'sum_': sel(ARF, n0), 'sum_of_squares_': sel(ARF, add(n0, ONE)),
                   'non_zero_calls_': sel(ARI, ZERO), 'finite_calls_': sel(ARI, ONE), 'calls_': TOT}
            for fn_, want in top.items():
                got = fld(ret, fn_)
                okf = False
                if isinstance(got, tuple) and got[0] == 'sel' and isinstance(want, tuple) and want[0] == 'sel' and got[1] == want[1]:
                    okf = algebra.equal(got[2], want[2])[0]
                else:
                    okf = got == want
                if okf:
                    ctx.holds('R5.unpack', where + ':' + fn_, 'integrated %s read from the position it was packed at'
                              % fn_ if fn_ != 'calls_' else 'calls = the TOTAL number of calls of the iteration')
                else:
                    ctx.violation('R5.unpack', where + ':' + fn_, 'integrated %s is not unpacked from the position '
                                  'it was packed at' % fn_, {'got': T.pretty(got)[:200], 'want': T.pretty(want)[:200]})
            # bins: decided on the loop summaries of the unpack loops (robust against extra state)
            # the loop that rebuilds the bins: it appends objects whose sum is read from the reduced
            # floating-point buffer; its running index is the position read; the enclosing loop is the
            # other loop that advances the same index variable (found by dataflow, in whatever function
            # the unpacking lives)
            from .. import ranges
            inner = outer = None
            bu = None
            for l in s.loops:
                for u_ in l.updates.values():
                    nx_ = u_['next']
                    if isinstance(nx_, tuple) and nx_ and nx_[0] == 'vpush' and nx_[1] == u_['pre'] and \
                            isinstance(nx_[2], tuple) and nx_[2] and nx_[2][0] == 'obj':
                        g_ = fld(nx_[2], 'sum_')
                        if isinstance(g_, tuple) and g_ and g_[0] == 'sel' and g_[1] == ARF:
                            inner, bu = l, u_
            if inner is not None:
                # the enclosing loop: the one whose body appends the container the inner loop fills
                for l in s.loops:
                    if l is inner:
                        continue
                    for u_ in l.updates.values():
                        if any(isinstance(t_, tuple) and t_ and t_[0] in ('vcomp', 'havoc') and inner.idx in
                               [x for x in t_ if isinstance(x, tuple)] for t_ in T.subterms(u_['next'])) or \
                                T.occurs(u_['next'], bu.get('final', ('?',))):
                            outer = l
            if inner is None or outer is None:
                raise AnalysisBroken('unpack loops of allreduce_result not recognised')
            d2 = outer.idx
            b2 = inner.idx
            nbins = T.size(fld(sel(dists, d2), 'results_'))
            okr = (outer.lo, outer.hi) == (ZERO, T.size(dists)) and \
                algebra.equal(sub(inner.hi, inner.lo), nbins)[0]
            if okr:
                ctx.holds('R5.unpack_enumeration', where, 'unpack enumerates (distribution, bin) over the same '
                          'ranges and in the same order as the pack loops')
            else:
                ctx.violation('R5.unpack_enumeration', where, 'unpack does not enumerate the bins like the pack '
                              'loops (ranges)',
                              {'outer': [T.pretty(outer.lo), T.pretty(outer.hi)], 'inner': [T.pretty(inner.lo), T.pretty(inner.hi)]})
            mb = bu['next'][2]
            # positions read, with every running index in closed form, against the positions packed:
            # bin b of distribution d was packed at  n0 + 2 + sum_{e<d} 2*|bins_e| + 2*b  (+1 for the
            # squares) in the floating-point buffer and at the same position minus n0 among the counters
            pm = ranges.prefix_subst(s.loops)
            e_ = sym('_e')
            base = add(add(n0, TWO), ('sum', e_, ZERO, d2, mul(TWO, T.size(fld(sel(dists, e_), 'results_')))))
            P = add(base, mul(TWO, sub(b2, inner.lo)))
            wantb = {'sum_': (ARF, P), 'sum_of_squares_': (ARF, add(P, ONE)),
                     'non_zero_calls_': (ARI, sub(P, n0)), 'finite_calls_': (ARI, sub(add(P, ONE), n0))}
            for fn_, (vec, pos) in wantb.items():
                got = fld(mb, fn_)
                gpos = T.subst(got[2], pm) if isinstance(got, tuple) and got[0] == 'sel' else None
                okb = gpos is not None and got[1] == vec and algebra.equal(gpos, pos)[0]
                if okb:
                    ctx.holds('R5.unpack', where + ':bin.' + fn_, 'bin %s read from slot %s of its pair, the '
                              'slot it was packed into' % (fn_, '0' if fn_ in ('sum_', 'non_zero_calls_') else '1'))
                else:
                    ctx.violation('R5.unpack', where + ':bin.' + fn_, 'bin %s is not unpacked from the position it '
                                  'was packed at' % fn_, {'got': T.pretty(got)[:300], 'position': T.pretty(gpos)[:300] if gpos else None,
                                                         'want_index': T.pretty(pos)[:200]})
            if fld(mb, 'calls_') == TOT:
                ctx.holds('R6.total_calls', where, 'every bin reports the total number of calls')
            else:
                ctx.violation('R6.total_calls', where, 'bins do not report the total number of calls',
                              {'calls_': T.pretty(fld(mb, 'calls_'))[:200]})
            # buffer returned to the caller: the merged additional data
            if isinstance(bterm, tuple) and bterm[0] == 'vresize' and bterm[1] == ARF and bterm[2] == n0:
                ctx.holds('R5.returned_buffer', where, 'buffer is cut back to the merged in_buffer part')
            else:
                ctx.violation('R5.returned_buffer', where, 'the merged adjustment data are not returned in '
                              '`buffer` (first |in_buffer| elements)', {'buffer': T.pretty(bterm)[:300]})
        ctx.guard('R5', fsite(f), r45)

    # mpi_datatype specialisations
    dts = instances(p, 'hep::mpi_datatype')
    ctx.count('mpi_datatype specialisations', len(dts), 6)
    for f in dts:
        def rdt(f=f):
            t = f.targs[0] if f.targs else None
            t = (t or '').replace('unsigned long int', 'unsigned long').replace('unsigned long long int', 'unsigned long long')
            # explicit specialisations carry no template arguments in the dump: use the return expression
            nm = names_in(f.body)
            want = MPI_TYPES.get(t)
            if want is None:
                # derive the element type from the mangled name / order is unknown: just require a known constant
                if any(x in nm for x in MPI_TYPES.values()):
                    ctx.holds('R5.mpi_datatype', fsite(f), 'returns the MPI constant %s' % [x for x in nm if x.startswith('ompi')])
                else:
                    raise AnalysisBroken('mpi_datatype specialisation returns an unknown constant %s' % nm)
            elif want in nm:
                ctx.holds('R5.mpi_datatype', fsite(f), 'mpi_datatype<%s> returns %s' % (t, want))
            else:
                ctx.violation('R5.mpi_datatype', fsite(f), 'mpi_datatype<%s> returns %s' % (t, nm))
        ctx.guard('R5.mpi_datatype', fsite(f), rdt)

    # ---------------------------------------------------------------- R1/R2/R4/R6 drivers
    exp_draws = {'hep::mpi_plain': lambda st: fld(sym('integrand'), 'dimensions_'),
                 'hep::mpi_vegas': lambda st: fld(st, 'dimensions_'),
                 'hep::mpi_multi_channel': lambda st: add(ONE, fld(sym('integrand'), 'dimensions_'))}
    nd = 0
    for name in MPI_DRIVERS:
        for d in instances(p, name):
            ctx.analysed(d)
            nd += 1

            def rdrv(d=d, name=name):
                s, ex = summarise(p, d, opaque=DRV_OPAQUE)
                base = name.replace('hep::', '')
                kern = KERNEL_OF[name]
                effs = list(flat_effects(s.effects))
                kc = [(i, e, l) for i, (e, l) in enumerate(effs) if e['kind'] == 'hcall' and e['name'] == kern]
                dis = [(i, e, l) for i, (e, l) in enumerate(effs) if e['kind'] == 'discard']
                ar = [(i, e, l) for i, (e, l) in enumerate(effs) if e['kind'] == 'hcall' and e['name'] == 'hep::allreduce_result']
                ad = [(i, e, l) for i, (e, l) in enumerate(effs) if e['kind'] == 'hcall' and e['name'] == 'hep::chkpt_with_rng::add']
                if len(kc) != 1 or len(ar) != 1 or len(ad) != 1:
                    raise AnalysisBroken('MPI driver shape not recognised')
                ik, ke, kl = kc[0]
                ls = s.loops[kl[0]['loop']]
                w = '%s:%s' % (ke['where'], base)
                # R1: discard -> kernel -> discard, all on the same generator, nothing else
                gen_lv = dis[0][1]['gen'] if dis else None
                ok_seq = len(dis) == 2 and dis[0][0] < ik < dis[1][0] and dis[0][1]['gen'] == dis[1][1]['gen'] and \
                    not dis[0][1]['pc'] and not dis[1][1]['pc'] and not ke['pc'] and \
                    all(l and l[0] is kl[0] for i, e, l in dis)
                draws = [e for e, l in effs if e['kind'] == 'draw']
                if ok_seq and not draws:
                    ctx.holds('R1.generator_sequence', w, 'per iteration: discard(before) -> kernel(sub_calls) '
                              '-> discard(after) on the one generator, unconditionally, nothing else touches it')
                else:
                    ctx.violation('R1.generator_sequence', w, 'the generator is not positioned by exactly one '
                                  'discard before and one after the kernel', {'discards': len(dis), 'draws': len(draws)})
                # R2: usage = draws per call x random_number_usage<T, decltype(generator)>
                if dis:
                    nb = dis[0][1]['n']
                    usage = usage_share(nb, (sym('rank()'), sym('size()')))[0]
                    ru = [e for e, l in effs if e['kind'] == 'hcall' and e['name'] == 'hep::random_number_usage']
                    if len(ru) != 1:
                        raise AnalysisBroken('random_number_usage call not found')
                    rterm = ('hcall', 'hep::random_number_usage')
                    su = upd_by_pre(ls, ke['args'][2]) if name == 'hep::mpi_vegas' else None
                    st0 = su['init'] if su else None
                    want = mul(exp_draws[name](st0), rterm)
                    ok, wit = algebra.equal(usage, want)
                    targs = ru[0].get('targs') or ()
                    eng_ok = len(targs) == 2 and targs[0] == p.numeric and \
                        p.canon(targs[1]) == p.canon(p.engine_desugared)
                    if ok and eng_ok:
                        ctx.holds('R2.usage', '%s:%s' % (ru[0]['where'], base), 'usage = (canonical numbers per '
                                  'call of the serial kernel) x random_number_usage<T, decltype(generator)>()')
                    elif not ok:
                        ctx.violation('R2.usage', '%s:%s' % (ru[0]['where'], base), 'the per-call generator usage '
                                      'does not match what the kernel draws per call',
                                      dict(wit or {}, usage=T.pretty(usage)[:200], want=T.pretty(want)[:200]))
                    else:
                        ctx.violation('R2.usage', '%s:%s' % (ru[0]['where'], base), 'the usage predictor is '
                                      'instantiated for another numeric type / engine than the generator',
                                      {'template_arguments': list(targs)})
                # R4: the collective and the callback are unconditional in the loop body
                ia, ae, al = ar[0]
                if ae['pc'] or not al or al[0] is not kl[0]:
                    ctx.violation('R4.collectives_unconditional', '%s:%s' % (ae['where'], base), 'allreduce_result is '
                                  'control dependent on %s: ranks may disagree on the sequence of collectives'
                                  % T.pretty(T.conj(ae['pc']))[:200])
                else:
                    ctx.holds('R4.collectives_unconditional', '%s:%s' % (ae['where'], base), 'allreduce_result is '
                              'executed unconditionally by every rank in every iteration')
                # R6: total calls, local result reduced
                a = ae['args']
                Nk = sel(calls_list_term(d), ls.idx)
                kres = ('hcall', kern) + tuple(ke['args'])
                roles = allreduce_roles(p)
                a_tot, a_res = a[roles['total'][0]], a[roles['result'][0]]
                ok6 = a_tot == Nk and a_res == kres
                if ok6:
                    ctx.holds('R6.reduced_result', '%s:%s' % (ae['where'], base), 'the local result of this rank is '
                              'reduced with the TOTAL number of calls of the iteration')
                else:
                    ctx.violation('R6.reduced_result', '%s:%s' % (ae['where'], base), 'the reduction is not fed '
                                  'with this rank\'s result and the total number of calls',
                                  {'total_calls': T.pretty(a_tot)[:120], 'result': T.pretty(a_res)[:160]})
                if name != 'hep::mpi_plain':
                    inb = a[roles['inb'][0]]
                    if inb == fld(kres, 'adjustment_data_'):
                        ctx.holds('R6.adjustment_reduced', '%s:%s' % (ae['where'], base), 'the local adjustment data '
                                  'are reduced along with the sums')
                    else:
                        ctx.violation('R6.adjustment_reduced', '%s:%s' % (ae['where'], base), 'the adjustment data '
                                      'handed to the reduction are not those of the local result',
                                      {'in_buffer': T.pretty(inb)[:200]})
                    # evaluation order: the read of `buffer` must be sequenced after allreduce_result
                    for n in d.body.walk():
                        if n.op == 'construct' and ('vegas_result' in (n.a.get('type') or '') or
                                                    'multi_channel_result' in (n.a.get('type') or '')) and len(n.k) == 3:
                            def strip(a_):
                                while a_ is not None and a_.op in ('cast', 'materialize', 'bindtemp', 'paren') and a_.k:
                                    a_ = a_.k[0]
                                return a_
                            copies = [a_ for a_ in n.k if strip(a_) is not None and strip(a_).op == 'construct'
                                      and strip(a_).a.get('copy') and 'vector' in (strip(a_).a.get('type') or '')]
                            calls_reduce = any(x.op == 'call' and 'allreduce_result' in (x.a.get('name') or '')
                                               for a_ in n.k for x in a_.walk())
                            if n.a.get('listinit'):
                                ctx.holds('R6.evaluation_order', '%s:%s' % (n.where(), base), 'braced initialiser: the '
                                          'arguments are evaluated left to right, `buffer` is read after the reduction')
                            elif copies and calls_reduce:
                                ctx.violation('R6.evaluation_order', '%s:%s' % (n.where(), base), 'the result is built '
                                              'with a parenthesised initialiser and takes the reduced buffer BY VALUE: '
                                              'the copy is an argument evaluation that is unsequenced relative to the '
                                              'allreduce_result call which fills the buffer; compilers that evaluate '
                                              'arguments right to left (GCC) store the buffer of the previous iteration')
                            elif calls_reduce:
                                ctx.warn('R6.evaluation_order', '%s:%s' % (n.where(), base), 'result is built with a '
                                         'parenthesised initialiser: the read of `buffer` is unsequenced relative to '
                                         'allreduce_result (harmless while the parameter is a reference)')
            ctx.guard('R1', fsite(d), rdrv)
    ctx.count('MPI drivers', nd, 6)
    # ---------------------------------------------------------------- R8 one communicator
    # rank, size and every collective must refer to the communicator the caller passed in: on a
    # sub-communicator (MPI_Comm_split) the size of MPI_COMM_WORLD is not the number of ranks that
    # share the work, and a collective on another communicator involves other processes
    nmpi = 0
    for name in MPI_DRIVERS + ['hep::allreduce_result', 'hep::mpi_callback::operator()']:
        for f in instances(p, name):
            ctx.analysed(f)

            def r8(f=f, name=name):
                nonlocal nmpi
                cps = [q for q in f.params if 'ompi_communicator_t' in (q.type or '') or 'MPI_Comm' in (q.type or '')]
                if len(cps) != 1:
                    raise AnalysisBroken('%s does not take exactly one communicator' % name)
                comm = sym(cps[0].name)
                s, ex = summarise(p, f, opaque=DRV_OPAQUE - {name})
                for e, l in flat_effects(s.effects):
                    if e['kind'] != 'mpi':
                        continue
                    nmpi += 1
                    w = '%s:%s' % (e['where'], name.replace('hep::', ''))
                    pos = {'MPI_Comm_rank': 0, 'MPI_Comm_size': 0, 'MPI_Allreduce': 5, 'MPI_Barrier': 0,
                           'MPI_Bcast': 4, 'MPI_Reduce': 6, 'MPI_Allgather': 6, 'MPI_Gather': 7}.get(e['name'])
                    if pos is not None and pos < len(e['args']):
                        cargs = [e['args'][pos]]
                    else:
                        cargs = [v for v, n in zip(e['args'], e.get('argnodes') or [])
                                 if 'ompi_communicator_t' in (n.ty or '') or 'MPI_Comm' in (n.ty or '')]
                    if not cargs:
                        raise AnalysisBroken('%s: communicator argument of %s not identified' % (w, e['name']))
                    if all(c == comm for c in cargs):
                        ctx.holds('R8.same_communicator', w, '%s refers to the communicator passed to %s'
                                  % (e['name'], name.replace('hep::', '')))
                    else:
                        ctx.violation('R8.same_communicator', w, '%s does not use the communicator passed to %s: '
                                      'on a sub-communicator the number of ranks / the set of processes taking '
                                      'part in the collective is wrong (calls are split for the wrong number of '
                                      'processes, the estimate is scaled by size(comm)/size(other))'
                                      % (e['name'], name.replace('hep::', '')),
                                      {'communicator_argument': [T.pretty(c)[:120] for c in cargs]})
            ctx.guard('R8', fsite(f), r8)
    ctx.count('MPI calls checked for their communicator', nmpi, 9)
    # shared: callback decision identical on all ranks, driver loop shape
    from . import C12, C19
    for name in MPI_DRIVERS:
        for d in instances(p, name):
            ctx.guard('R7/driver', fsite(d), lambda d=d, name=name: C12.driver_shape(Proxy(ctx, 'R7/C12.'), d, name))
    share(ctx, 'C19', 'R6/C19.', ['R4.'])
    from . import C10
    share(ctx, 'C10', 'R2/C10.', ['R1.', 'R2.', 'R3.', 'R5.'])
    share(ctx, 'C12', 'R4/C12.', ['R4.mpi_same_decision'])


def _inside_size(whole, t):
    """t occurs in whole only as (part of) the operand of a size(...) term"""
    stripped = T.subst(whole, {})

    def strip(x):
        if not isinstance(x, tuple) or not x:
            return x
        if x[0] == 'size':
            return ('size', ('sym', '_'))
        if x[0] in ('num', 'sym'):
            return x
        return (x[0],) + tuple(strip(c) for c in x[1:])
    return not T.occurs(strip(whole), t)
