"""C08 - channel weights stay a probability vector; disabled channels and floor respected."""
import os
import sys

from .. import terms as T
from .. import fpclass as fp
from ..terms import sym, add, mul, sub, div, ZERO, ONE, fld, sel, ite
from .common import *

sys.path.insert(0, os.path.dirname(os.path.dirname(os.path.dirname(os.path.abspath(__file__)))))
from spec import formulas as F   # noqa

W, D, BETA, MINW = sym('weights'), sym('adjustment_data'), sym('beta'), sym('minimum_weight')


def base_env(wcls, dcls, focus_w=None, focus_d=None, j=None):
    env = fp.Env({BETA: fp.POS, MINW: fp.ZERO | fp.POS, T.size(W): fp.POS},
                 anysel={W: wcls, D: dcls})
    if j is not None:
        env.vals[sel(W, j)] = focus_w if focus_w is not None else wcls
        env.vals[sel(D, j)] = focus_d if focus_d is not None else dcls
    return env


def check(ctx):
    p = ctx.prog
    no_use_after_move(ctx, 'move.no_use_after_move', ['hep::multi_channel_refine_weights', 'hep::multi_channel_chkpt::channel_weights', 'hep::multi_channel_chkpt::channels'])
    # all arithmetic behind this property happens in the numeric type T of the instantiation
    single_precision(ctx, 'prec.single_type', ['hep::multi_channel_refine_weights', 'hep::multi_channel_chkpt::', 'hep::multi_channel_result::'], 1)
    ctx.assume('weights non-negative, adjustment data finite and non-negative, beta > 0, '
               'minimum weight >= 0 (documented preconditions / property premise)')
    f = p.one('hep::multi_channel_refine_weights')
    ctx.analysed(f)
    where = fsite(f)
    n = T.size(W)
    j = sym('j')
    T.RANGES[j] = (ZERO, n)

    s, ex = summarise(p, f)
    ret = s.ret
    elem = sel(ret, j)

    def rule_r1():
        # ------------------------------------------------------------ R1 definite scenarios
        scen = [
            ('all adjustment data zero (an iteration whose sampled values are all zero)',
             base_env(fp.ZERO | fp.POS, fp.ZERO, j=j)),
            ('minimum weight zero, all data positive',
             base_env(fp.POS, fp.POS, j=j).with_val(MINW, fp.ZERO)),
            ('minimum weight positive, all data positive',
             base_env(fp.POS, fp.POS, j=j).with_val(MINW, fp.POS)),
        ]
        definite = []
        for name, env in scen:
            r = fp.ev(elem, env)
            if r.tainted:
                raise AnalysisBroken('refined weight depends on a value without class: %s' % r.why)
            if r.cls & fp.NONFINITE and not (r.cls & fp.FINITE):
                definite.append((name, fp.show(r.cls)))
        # general soundness run: weights, data in {Zero, Pos}
        env = base_env(fp.ZERO | fp.POS, fp.ZERO | fp.POS, j=j)
        g = fp.ev(elem, env)
        if g.tainted:
            raise AnalysisBroken('refined weight depends on a value without class: %s' % g.why)
        if definite:
            ctx.violation('R1.finite_nonneg', where, 'refined weights are not finite: scenario "%s" '
                          'yields %s for every channel (0/0 in the final normalisation)' % definite[0],
                          {'scenario': definite[0][0], 'returned_class': definite[0][1],
                           'element': T.pretty(elem)[:700]})
        elif g.cls & ~(fp.ZERO | fp.POS):
            # may-alarm without a definite scenario: imprecision, not a violation
            sc2 = None
            for name, e2 in scen:
                pass
            raise AnalysisBroken('abstract value of a refined weight is %s but no definite '
                                 'counterexample scenario was found' % fp.show(g.cls))
        else:
            ctx.holds('R1.finite_nonneg', where, 'for non-negative weights/data, beta > 0, min >= 0 '
                      'every returned weight is in {Zero, Pos}: no division by zero is reachable')
    ctx.guard('R1.finite_nonneg', where, rule_r1)

    def rule_r2():
        definite = False
        # ------------------------------------------------------------ R2 disabled stays disabled
        env = base_env(fp.ZERO | fp.POS, fp.ZERO | fp.POS, focus_w=fp.ZERO, j=j)
        r2 = fp.ev(elem, env)
        if r2.tainted:
            raise AnalysisBroken(r2.why)
        if r2.cls & fp.NONFINITE and not definite:
            raise AnalysisBroken('imprecise abstract value for a disabled channel: %s' % fp.show(r2.cls))
        if r2.cls & (fp.POS | fp.NEG):
            ctx.violation('R2.disabled_stays_disabled', where, 'a channel with weight zero can get a '
                          'non-zero weight (e.g. through the minimum weight)',
                          {'returned_class': fp.show(r2.cls), 'element': T.pretty(elem)[:700]})
        elif not (r2.cls & fp.NONFINITE):
            ctx.holds('R2.disabled_stays_disabled', where, 'focus weight Zero -> returned weight Zero '
                      'for every datum and minimum weight')
    ctx.guard('R2.disabled_stays_disabled', where, rule_r2)

    def rule_r6():
        # ------------------------------------------------------------ R6 all-zero iteration
        zero_paths = []
        other = []
        tot = ('sum', sym('_i'), ZERO, n, F.mc_unnormalised(W, D, BETA, sym('_i')))
        for pc, v in s.returns:
            c = T.conj(pc)
            env0 = base_env(fp.ZERO | fp.POS, fp.ZERO, j=j)
            # is this return taken in the all-zero scenario?
            t = fp.evb(c, env0) if c != T.TRUE else fp.Result(fp.BT)
            if t.cls & fp.BT:
                zero_paths.append(v)
        if len(zero_paths) == 1 and zero_paths[0] == W:
            ctx.holds('R6.all_zero_unchanged', where, 'when the data carry no information the input '
                      'weights are returned unchanged')
        else:
            ctx.violation('R6.all_zero_unchanged', where, 'an iteration whose sampled values are all '
                          'zero does not leave the weights as they were',
                          {'returned_in_all_zero_scenario': [T.pretty(v)[:400] for v in zero_paths]})
    ctx.guard('R6.all_zero_unchanged', where, rule_r6)

    def rule_r34():
        # ------------------------------------------------------------ R3/R4 normal path
        normal = None
        for pc, v in s.returns:
            if isinstance(v, tuple) and v[0] == 'vmap':
                normal = v
        if normal is None:
            raise AnalysisBroken('normalisation path of multi_channel_refine_weights not recognised')
        _, v0, k, lo, hi, body = normal
        if not (lo == ZERO and hi == n):
            ctx.violation('R3.normalised', where, 'the final normalisation does not cover every channel',
                          {'range': [T.pretty(lo), T.pretty(hi)]})
        elif isinstance(body, tuple) and body[0] == '/' and isinstance(body[2], tuple) and \
                body[2][0] == 'sum' and (body[2][2], body[2][3]) == (ZERO, n):
            num = body[1]
            den = body[2]
            ok, wit = algebra_eq(T.subst(den[4], {den[1]: k}), num)
            if ok:
                ctx.holds('R3.normalised', where, 'last write of every element is a division by the '
                          'sum of exactly those elements (normalisation idiom)')
                i2 = sym('_i')
                check_equal(ctx, 'R4.formula', where, 'pre-normalisation weight of channel k '
                            '(clamp before the last normalisation)', num,
                            F.mc_prenorm(W, D, BETA, MINW, n, k, i2))
            else:
                ctx.violation('R3.normalised', where, 'the divisor of the final normalisation is not '
                              'the sum of the elements being normalised', wit)
        else:
            ctx.violation('R3.normalised', where, 'the returned weights are not normalised by their sum '
                          'as the last step', {'element': T.pretty(body)[:600]})
    ctx.guard('R3.normalised', where, rule_r34)

    # ---------------------------------------------------------------- R5 first-iteration weights
    ctors = [c for c in instances(p, 'hep::multi_channel_chkpt::multi_channel_chkpt')
             if len(c.params) == 3 and not c.is_implicit]
    ctx.count('multi_channel_chkpt(weights, min, beta) constructors', len(ctors), 1)
    for c in ctors:
        ctx.analysed(c)

        def r5(c=c):
            s, ex = summarise(p, c, opaque={'hep::multi_channel_refine_weights'})
            cw = sym('channel_weights')
            got = fld(s.this, 'first_channel_weights_')
            want = ('hcall', 'hep::multi_channel_refine_weights', cw, ('vfill', T.size(cw), ONE),
                    sym('min_weight'), sym('beta'))
            if got == want and fld(s.this, 'beta_') == sym('beta') and fld(s.this, 'min_weight_') == sym('min_weight'):
                ctx.holds('R5.user_weights', fsite(c), 'user weights are normalised through '
                          'multi_channel_refine_weights(weights, 1.., min_weight, beta)')
            else:
                ctx.violation('R5.user_weights', fsite(c), 'the user supplied weights are not passed '
                              'through the refinement routine with data == 1 and (min_weight, beta) '
                              'in their slots', {'first_channel_weights_': T.pretty(got)[:500]})
        ctx.guard('R5', fsite(c), r5)
    ch = p.one('hep::multi_channel_chkpt::channels')
    ctx.analysed(ch)

    def r5b():
        th = T.mkobj('hep::multi_channel_chkpt<double>', {'first_channel_weights_': T.vempty()},
                     origin=sym('this'))
        s, ex = summarise(p, ch, this=th)
        got = fld(s.this, 'first_channel_weights_')
        c = sym('channels')
        ok, wit = (False, None)
        if isinstance(got, tuple) and got[0] == 'vfill' and got[1] == c:
            ok, wit = algebra_eq(got[2], div(ONE, c))
        if ok:
            ctx.holds('R5.default', fsite(ch), 'without user weights every channel starts with 1/channels')
        else:
            ctx.violation('R5.default', fsite(ch), 'default weights are not 1/channels for every channel',
                          {'first_channel_weights_': T.pretty(got)[:300]})
    ctx.guard('R5.default', fsite(ch), r5b)
    _shared(ctx)
    # the refinement must be fed the weights and the data of the result in their own slots, also in
    # the MPI driver (shared with C19)
    share(ctx, 'C19', 'R8/C19.', ['R4.mpi_result', 'R4.mpi_refinement'])
    # weights written to a checkpoint come back as weights: reader and writer agree on the order of
    # the (adjustment datum, weight) pairs (shared with C05)
    share(ctx, 'C05', 'R9/C05.', ['i.sequence', 'vii.', 'iii.'])



def _shared(ctx):
    from . import C19
    from .common import Proxy, share
    share(ctx, 'C19', 'R7/C19.', ['R2.next_weights', 'R2.parameters_stored', 'R2.factory_forwards', 'R2.getters'])


def algebra_eq(a, b):
    from .. import algebra
    return algebra.equal(a, b)
