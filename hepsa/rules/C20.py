"""C20 - reporting never changes or breaks a run."""
from .. import terms as T
from .. import symex as SX
from ..terms import sym, fld
from .common import *
from .common import Proxy, share
from .C12 import CB_OPAQUE, DRV_OPAQUE

TH = sym('this')
REPORT_CHAIN = ['hep::callback::operator()', 'hep::multi_channel_summary', 'hep::multi_channel_weight_info::multi_channel_weight_info',
                'hep::multi_channel_max_difference', 'hep::minimal_weight_channels', 'hep::make_list_of_ranges',
                'hep::chi_square_dof', 'hep::accumulate', 'hep::hep_distribution_accumulator',
                'hep::weighted_with_variance::operator()', 'hep::chkpt::serialize', 'hep::chkpt_with_rng::serialize',
                'hep::vegas_chkpt::serialize', 'hep::multi_channel_chkpt::serialize', 'hep::plain_result::serialize',
                'hep::vegas_result::serialize', 'hep::multi_channel_result::serialize', 'hep::mc_result::serialize',
                'hep::distribution_result::serialize', 'hep::distribution_parameters::serialize', 'hep::vegas_pdf::serialize']


def check(ctx):
    p = ctx.prog
    ctx.assume('termination and absence of std::out_of_range in the summary printer are NOT decided '
               '(linear integer reasoning over three symbols; omitted rather than pattern-matched)')
    mode = fld(TH, 'mode_')
    fname = fld(TH, 'filename_')

    # ---------------------------------------------------------------- R1 const-transitivity
    def r1():
        bad = []
        n = 0
        for base in REPORT_CHAIN:
            for f in p.find(base):
                n += 1
                ctx.analysed(f)
                for node in f.body.walk():
                    if node.op == 'cast' and node.a.get('kind') == 'const_cast':
                        bad.append('const_cast in %s at %s' % (base, node.where()))
                    if node.op == 'mcall' and node.a.get('hep'):
                        cal = p.funcs.get(node.a['id'])
                        objt = node.a.get('objtype') or ''
                        if cal is not None and not cal.is_const and not cal.is_static and 'const' in objt:
                            bad.append('non-const member %s called on const object at %s' % (cal.name, node.where()))
        for r in p.records.values():
            if r.is_pattern:
                continue
            b = strip_targs(r.qualname)
            if b in ('hep::chkpt', 'hep::chkpt_with_rng', 'hep::vegas_chkpt', 'hep::multi_channel_chkpt',
                     'hep::mc_result', 'hep::plain_result', 'hep::vegas_result', 'hep::multi_channel_result',
                     'hep::distribution_result', 'hep::distribution_parameters', 'hep::vegas_pdf'):
                for fl in r.fields:
                    if fl.get('mutable'):
                        bad.append('mutable member %s::%s' % (b, fl['name']))
        if bad:
            ctx.violation('R1.const_transitive', 'include/hep/mc/callback.hpp', 'the reporting chain can '
                          'modify the checkpoint: ' + bad[0], {'all': bad[:10]})
        else:
            ctx.holds('R1.const_transitive', 'include/hep/mc/callback.hpp', 'no const_cast, no mutable member '
                      'and no non-const member call on the checkpoint along the reporting chain '
                      '(%d function bodies)' % n)
        if n < 20:
            raise AnalysisBroken('reporting chain shrank to %d functions' % n)
    ctx.guard('R1', 'include/hep/mc/callback.hpp', r1)

    cbs = instances(p, 'hep::callback::operator()')
    ctx.count('callback::operator() instantiations', len(cbs), 3)
    for f in cbs:
        ctx.analysed(f)

        def rcb(f=f):
            s, ex = summarise(p, f, opaque=CB_OPAQUE)
            where = fsite(f)
            # parameter type
            ck = f.params[0]
            if 'const' in (ck.type or '') and SX.is_ref(ck.type):
                ctx.holds('R1.const_parameter', where, 'the checkpoint is received as const reference')
            else:
                ctx.violation('R1.const_parameter', where, 'the checkpoint is not received as const '
                              'reference (%s)' % ck.type)
            after = ex.param_value(s, ck.name)
            if after == sym(ck.name):
                ctx.holds('R1.checkpoint_unchanged', where, 'the checkpoint object is unchanged at every '
                          'exit of the callback')
            else:
                ctx.violation('R1.checkpoint_unchanged', where, 'the callback writes to the checkpoint',
                              {'after': T.pretty(after)[:300]})
            # opaque callees receive it as const
            for e, l in flat_effects(s.effects):
                if e['kind'] == 'hcall' and any(T.occurs(a, sym(ck.name)) for a in e['args']):
                    cals = [p.funcs[e['callee']]] if e.get('callee') in p.funcs else []
                    for cal in cals:
                        for q, a in zip(cal.params, e['args']):
                            if T.occurs(a, sym(ck.name)) and SX.is_mut_ref(q.type):
                                ctx.violation('R1.const_transitive', '%s:callback::operator()' % e['where'],
                                              '%s takes the checkpoint by non-const reference' % e['name'])
            # R2 decision independent of mode and file name, no exits in mode-dependent branches
            probs = []
            if T.occurs(s.ret, mode) or T.occurs(s.ret, fname):
                probs.append('the returned decision depends on mode_/filename_')
            for pc, v in s.returns:
                if T.occurs(T.conj(pc), mode) or T.occurs(T.conj(pc), fname):
                    probs.append('a return statement is control dependent on mode_/filename_')
            for e, l in flat_effects(s.effects):
                if e['kind'] == 'throw' and (T.occurs(T.conj(e['pc']), mode)):
                    probs.append('a throw is control dependent on mode_ at %s' % e['where'])
            if probs:
                ctx.violation('R2.decision_independent', where, probs[0], {'all': probs,
                                                                          'decision': T.pretty(s.ret)[:300]})
            else:
                ctx.holds('R2.decision_independent', where, 'the decision and every exit are independent '
                          'of mode_ and filename_')
            # R3 effects of the mode-dependent part
            bad = []
            for e, l in flat_effects(s.effects):
                dep = T.occurs(T.conj(e['pc']), mode)
                if not dep:
                    continue
                k = e['kind']
                if k == 'out':
                    st = e['stream']
                    if not (isinstance(st, tuple) and st[0] == 'stream'):
                        bad.append('output to %s at %s' % (T.pretty(st)[:60], e['where']))
                elif k in ('open', 'fs', 'streamop', 'ext', 'assert', 'in'):
                    continue
                elif k in ('hcall', 'vcall'):
                    if e.get('const') is False and e.get('this_lv') is not None:
                        bad.append('non-const call %s at %s' % (e['name'], e['where']))
                else:
                    continue
            th = s.this
            changed = [n_ for n_, v in T.obj_fields(th).items() if v != fld(TH, n_)] if isinstance(th, tuple) and th[0] == 'obj' else []
            if changed:
                bad.append('operator() writes its own members %s' % changed)
            if bad:
                ctx.violation('R3.reporting_effects_only', where, 'mode-dependent code has effects beyond '
                              'printing / writing the file: ' + bad[0], {'all': bad})
            else:
                ctx.holds('R3.reporting_effects_only', where, 'statements depending on mode_ only write to '
                          'std::cout, a local stream and the file system; no member of the callback is written')
        ctx.guard('R2', fsite(f), rcb)

    # drivers use only the boolean and keep their own checkpoint
    for name in SERIAL_DRIVERS + MPI_DRIVERS:
        for d in instances(p, name):
            def rd(d=d, name=name):
                s, ex = summarise(p, d, opaque=DRV_OPAQUE)
                cbname = 'hep::mpi_callback::operator()' if 'mpi' in name else 'hep::callback::operator()'
                cb = [(e, l) for e, l in flat_effects(s.effects) if e['kind'] == 'hcall' and e['name'] == cbname]
                if len(cb) != 1:
                    raise AnalysisBroken('callback call not found in %s' % name)
                e, loops = cb[0]
                ls = s.loops[loops[0]['loop']]
                res = ('hcall', cbname, e['obj']) + tuple(e['args'])
                uses = []
                for lab, u in ls.updates.items():
                    if lab in ('callback',):
                        continue
                    if T.occurs(u['next'], res) and lab != 'callback':
                        # allowed: guard of the refinement (state carried only if the loop continues)
                        stripped = T.subst(u['next'], {('truth', res): T.TRUE})
                        # a boolean flag that just holds the decision is still "the boolean"
                        if u['next'] in (res, ('truth', res)):
                            continue
                        if T.occurs(stripped, res):
                            uses.append(lab)
                cal = p.find(cbname)[0]
                ckp = [q for q in cal.params if 'Checkpoint' in (q.type or '') or 'chkpt' in (q.type or '')]
                if uses:
                    ctx.violation('R3.driver_uses_boolean_only', '%s:%s' % (e['where'], name.replace('hep::', '')),
                                  'the callback result flows into %s' % uses)
                else:
                    ctx.holds('R3.driver_uses_boolean_only', '%s:%s' % (e['where'], name.replace('hep::', '')),
                              'the driver only branches on the callback result; the checkpoint it keeps is '
                              'passed by const reference')
            ctx.guard('R3.driver', fsite(d), rd)

    # ---------------------------------------------------------------- R4 mpi_callback
    ms = instances(p, 'hep::mpi_callback::operator()')
    ctx.count('mpi_callback::operator() instantiations', len(ms), 3)
    for f in ms:
        ctx.analysed(f)

        def r4(f=f):
            s, ex = summarise(p, f, opaque={'hep::callback::operator()'})
            where = fsite(f)
            cbm = fld(fld(TH, 'callback_'), 'mode_')
            th = s.this
            newmode = fld(fld(th, 'callback_'), 'mode_')
            rank = sym('rank()')
            silent = ('enum', 'silent')
            want = T.ite(T.land(('!=', cbm, silent), ('!=', rank, T.ZERO)), silent, cbm)
            from .. import algebra
            ok = newmode == want
            if not ok:
                # decide by cases on (mode == silent, rank == 0), whatever the nesting / orientation
                def case(eq_silent, eq_root):
                    m = {}
                    for a, b, v in ((cbm, silent, eq_silent), (rank, T.ZERO, eq_root)):
                        for x, y in ((a, b), (b, a)):
                            m[('==', x, y)] = T.TRUE if v else T.FALSE
                            m[('!=', x, y)] = T.FALSE if v else T.TRUE
                    # a rank is a non-negative integer: `rank > 0`, `rank >= 1`, `0 < rank` say "not the root"
                    root, notroot = (T.TRUE, T.FALSE) if eq_root else (T.FALSE, T.TRUE)
                    for c_ in (('>', rank, T.ZERO), ('<', T.ZERO, rank), ('>=', rank, T.ONE), ('<=', T.ONE, rank)):
                        m[c_] = notroot
                    for c_ in (('<=', rank, T.ZERO), ('>=', T.ZERO, rank), ('<', rank, T.ONE), ('>', T.ONE, rank)):
                        m[c_] = root
                    return T.subst(newmode, m)
                ok = case(True, True) in (cbm, silent) and case(True, False) in (cbm, silent) and \
                    case(False, True) == cbm and case(False, False) == silent
            other = [n_ for n_, v in T.obj_fields(fld(th, 'callback_')).items() if n_ != 'mode_'] \
                if isinstance(fld(th, 'callback_'), tuple) and fld(th, 'callback_')[0] == 'obj' else []
            if ok and not other:
                ctx.holds('R4.rank_dependent_effect', where, 'the only rank-dependent effect is '
                          'mode(silent) on ranks != 0')
            else:
                ctx.violation('R4.rank_dependent_effect', where, 'mpi_callback has a rank-dependent effect '
                              'other than silencing non-root ranks', {'mode_after': T.pretty(newmode)[:300],
                                                                      'other_members': other})
        ctx.guard('R4', fsite(f), r4)
    # the decision returned by mpi_callback must be the inner callback's decision on every rank and
    # in every mode (otherwise the run depends on the mode: silent never asks for the rank)
    share(ctx, 'C12', 'R4/C12.', ['R4.'])

    # ---------------------------------------------------------------- R6 writing a checkpoint cannot throw
    # serialize() runs only in the two writing modes: a std::string operation with a position argument
    # (substr / at / erase / replace / insert / compare) throws std::out_of_range when the position
    # exceeds the size - e.g. a position taken from find*() is npos for an empty or unmatched name
    from .. import sergram
    THROWING = ('substr', 'at', 'erase', 'replace', 'insert', 'compare', 'copy')
    nser = 0
    for base in sergram.SERIALISED:
        for f in p.find(base + '::serialize'):
            nser += 1
            ctx.analysed(f)

            def r6(f=f, base=base):
                opq = set(x + '::serialize' for x in sergram.SERIALISED if x != base)
                s, ex = summarise(p, f, opaque=opq)
                bad = []
                unk = []
                for e, l in flat_effects(s.effects):
                    terms = [v for v in e.values() if isinstance(v, tuple)] + \
                            [x for v in e.values() if isinstance(v, (list,)) for x in v if isinstance(x, tuple)]
                    for t0 in terms:
                        for t in T.subterms(t0):
                            if isinstance(t, tuple) and len(t) >= 4 and t[0] == 'strop' and t[1] in THROWING:
                                pos = t[3]
                                if pos == T.ZERO:
                                    continue
                                if any(isinstance(x, tuple) and x and x[0] == 'strop' and str(x[1]).startswith(('find', 'rfind'))
                                       for x in T.subterms(pos)):
                                    bad.append((e.get('where'), t))
                                else:
                                    unk.append((e.get('where'), t))
                w = fsite(f)
                if bad:
                    ctx.violation('R6.serialize_cannot_throw', '%s:%s' % (bad[0][0] or w, f.name), '%s(...) is called with a '
                                  'position that comes from a find operation and is npos when nothing is found (e.g. '
                                  'an empty name): std::out_of_range aborts the run in the writing modes only'
                                  % bad[0][1][1], {'call': T.pretty(bad[0][1])[:200]})
                elif unk:
                    raise AnalysisBroken('%s: cannot show that the position of %s is within the string'
                                         % (unk[0][0], T.pretty(unk[0][1])[:120]))
                else:
                    ctx.holds('R6.serialize_cannot_throw', w, 'no string operation with a position argument that '
                              'could exceed the size')
            ctx.guard('R6', fsite(f), r6)
    ctx.count('serialize functions checked for throwing string operations', nser, 11)

    # ---------------------------------------------------------------- R8 comparators are strict
    # a comparison object handed to std::sort / stable_sort / the binary searches must be a strict weak ordering:
    # with `<=` equal elements compare "less" in both directions, which is undefined behaviour (libstdc++'s
    # introsort scans past the end of the range for more than 16 elements with ties at the extremes) - reached only
    # from the printing modes
    SORTS = ('sort', 'stable_sort', 'partial_sort', 'nth_element', 'upper_bound', 'lower_bound', 'equal_range',
             'binary_search', 'merge', 'inplace_merge', 'min_element', 'max_element', 'is_sorted')
    ncmp = 0
    for f in functions_behind(p, ['hep::multi_channel_summary', 'hep::multi_channel_weight_info::',
                                  'hep::minimal_weight_channels', 'hep::make_list_of_ranges']):
        for nd in f.body.walk():
            if nd.op != 'call' or (nd.a.get('name') or '') not in SORTS:
                continue
            for a_ in nd.k:
                lam = a_
                while lam is not None and lam.op in ('cast', 'materialize', 'bindtemp', 'paren', 'construct') and lam.k:
                    lam = lam.k[0]
                if lam is None or lam.op != 'lambda':
                    continue
                ncmp += 1
                rets = [x for x in lam.walk() if x.op == 'return' and x.k]

                def strip(x):
                    while x is not None and x.op in ('cast', 'paren') and x.k:
                        x = x.k[0]
                    return x
                loose = []
                for r_ in rets:
                    ex_ = strip(r_.k[0])
                    o_ = ex_.a.get('o') if ex_.op == 'bin' else (ex_.a.get('opname', '').replace('operator', '')
                                                                  if ex_.op == 'opcall' else None)
                    if o_ in ('<=', '>='):
                        loose.append(o_)
                    elif ex_.op == 'un' and ex_.a.get('o') == '!' and strip(ex_.k[0]).op == 'bin' and \
                            strip(ex_.k[0]).a.get('o') in ('<', '>'):
                        loose.append('!(' + strip(ex_.k[0]).a['o'] + ')')
                w = '%s:%s' % (nd.where(), f.name)
                if loose:
                    ctx.violation('R8.strict_comparator', w, 'the comparison handed to std::%s is `%s`, not a strict weak '
                                  'ordering: equal elements make the algorithm\'s behaviour undefined (reads past the '
                                  'range; an exception or a crash in the verbose modes only)' % (nd.a.get('name'), loose[0]))
                else:
                    ctx.holds('R8.strict_comparator', w, 'comparison object of std::%s is a strict comparison' % nd.a.get('name'))
    ctx.count('comparison objects in the reporting code', ncmp, 1)
    # ---------------------------------------------------------------- R7 printing terminates
    # a loop of the reporting code that is not a counting loop must advance a loop-carried position on every
    # path back to its head; `first = std::adjacent_find(first, end, pred)` does not: the algorithm returns its
    # first argument when the first pair matches, the loop then repeats with identical state and the verbose
    # run never returns while the silent run completes
    RANGE_ALGS = ('adjacent_find', 'find', 'find_if', 'find_if_not', 'lower_bound', 'upper_bound', 'search',
                  'mismatch', 'partition_point', 'is_sorted_until', 'min_element', 'max_element', 'find_first_of')

    def lower(t, pre, loops, depth=0):
        """k such that t >= pre + k is certain (None: nothing known); positions of iterators are compared"""
        if depth > 12:
            return None
        if t == pre:
            return 0
        if isinstance(t, tuple) and t and t[0] == 'iter':
            return lower(t[2], pre[2] if isinstance(pre, tuple) and pre and pre[0] == 'iter' else pre, loops, depth + 1)
        if not isinstance(t, tuple) or not t:
            return None
        d = T.diff(t, pre)
        if d is not None and T.is_num(d):
            return d[1]
        if t[0] == '+' and T.is_num(t[2]):
            k = lower(t[1], pre, loops, depth + 1)
            return None if k is None else k + t[2][1]
        if t[0] == '+' and T.is_num(t[1]):
            k = lower(t[2], pre, loops, depth + 1)
            return None if k is None else k + t[1][1]
        if t[0] == 'ite':
            a_, b_ = lower(t[2], pre, loops, depth + 1), lower(t[3], pre, loops, depth + 1)
            return None if a_ is None or b_ is None else min(a_, b_)
        if t[0] == 'ext' and len(t) > 3 and t[1] in RANGE_ALGS:
            return lower(t[3], pre, loops, depth + 1)       # the result is in [first argument, last argument]
        if t[0] == 'havoc' and len(t) == 3 and isinstance(t[1], int) and t[1] < len(loops):
            # value of a variable after an inner loop that is not a counting loop: it never decreases in there if
            # every pass adds a non-negative constant or assigns another variable that never decreases
            il = loops[t[1]]
            u = il.updates.get(t[2])
            if u is None:
                return None

            def monotone(u_, seen=()):
                dd = T.diff(u_['next'], u_['pre'])
                if dd is not None and T.is_num(dd) and dd[1] >= 0:
                    return [u_['init']]
                for lab2, u2 in il.updates.items():
                    if lab2 in seen:
                        continue
                    # assigned (a non-negative constant above) the value of another non-decreasing variable
                    d2 = T.diff(u_['next'], u2['pre'])
                    if d2 is not None and T.is_num(d2) and d2[1] >= 0:
                        inner = monotone(u2, seen + (lab2,))
                        if inner is not None:
                            return [u_['init']] + inner
                return None
            starts = monotone(u, (t[2],))
            if starts is None:
                return None
            ks = [lower(x, pre, loops, depth + 1) for x in starts]
            return None if any(k is None for k in ks) else min(ks)
        return None

    def progress(nxt, pre, pc, loops=()):
        # 'yes' | 'stall' (a path on which the position provably may stay) | 'unknown'
        k = lower(nxt, pre, loops)
        if k is not None and k >= 1:
            return 'yes'
        if isinstance(nxt, tuple) and nxt and nxt[0] == 'ite':
            a = progress(nxt[2], pre, pc + (nxt[1],), loops)
            b = progress(nxt[3], pre, pc + (T.lnot(nxt[1]),), loops)
            if a == b:
                return a
            return 'stall' if 'stall' in (a, b) and 'unknown' not in (a, b) else 'unknown'
        if isinstance(nxt, tuple) and len(nxt) > 3 and nxt[0] == 'ext' and nxt[1] in RANGE_ALGS and nxt[3] == pre:
            differs = any(c in (('!=', nxt, pre), ('!=', pre, nxt), ('not', ('==', nxt, pre)), ('not', ('==', pre, nxt)))
                          for c in pc)
            return 'yes' if differs else 'stall'
        if k == 0 and nxt == pre:
            return 'stall'
        return 'unknown'
    nloops = 0
    def min_size(S):
        """smallest value the size term S can take in a reachable state (>= 1 channel, >= 1 result), or None"""
        if T.is_num(S):
            return S[1]
        if isinstance(S, tuple) and S and S[0] == 'count':
            return 0                       # number of elements that pass a filter: possibly none
        if isinstance(S, tuple) and S and S[0] == 'size':
            V = S[1]
            if isinstance(V, tuple) and V and V[0] == 'vcomp':
                base = min_size(T.size(V[1])) if V[1] != T.vempty() else 0
                if base is None:
                    return None
                if V[5] != T.TRUE:
                    return base            # every element may be filtered out
                n_ = min_size(T.diff(V[4], V[3])) if not T.is_num(T.diff(V[4], V[3])) else T.diff(V[4], V[3])[1]
                return None if n_ is None else base + n_
            if isinstance(V, tuple) and V and V[0] == 'fld' and V[2] in ('adjustment_data_', 'channel_weights_', 'results_'):
                return 1
            return None
        if isinstance(S, tuple) and S and S[0] in ('+',):
            a_, b_ = min_size(S[1]), min_size(S[2])
            return None if a_ is None or b_ is None else a_ + b_
        return None

    for f in list(instances(p, 'hep::multi_channel_summary')) + list(instances(p, 'hep::make_list_of_ranges')) + \
            list(p.find('hep::minimal_weight_channels')) + list(p.find('hep::multi_channel_max_difference')) + \
            list(instances(p, 'hep::callback::operator()')):
        ctx.analysed(f)

        def r7(f=f):
            nonlocal nloops
            s, ex = summarise(p, f, opaque=set(CB_OPAQUE) if f.name == 'operator()' else set())
            for l in s.loops:
                if l.func is not f:
                    continue
                nloops += 1
                w = '%s:%s' % (l.node.where(), f.name)
                if l.lo is not None and l.hi is not None:
                    # `i != size - c` with an unsigned size: if the container can hold fewer than c elements the bound
                    # wraps around and the loop runs (and indexes) far beyond the end
                    hi = l.hi
                    wraps = None
                    if isinstance(hi, tuple) and hi and hi[0] == '-' and T.is_num(hi[2]) and hi[2][1] >= 1:
                        ms = min_size(hi[1])
                        if ms is not None and ms < hi[2][1]:
                            wraps = (hi[1], hi[2][1], ms)
                    if wraps:
                        ctx.violation('R7.loops_make_progress', w, 'the loop bound %s is computed in unsigned arithmetic '
                                      'and the container can hold only %s element(s) (e.g. every element filtered out): '
                                      'the bound wraps around and the loop runs past the end of the container'
                                      % (T.pretty(hi)[:80], wraps[2]), {'bound': T.pretty(hi)[:200]})
                    else:
                        ctx.holds('R7.loops_make_progress', w, 'counting loop over [%s, %s)' % (T.pretty(l.lo)[:40],
                                                                                                 T.pretty(l.hi)[:40]))
                    continue
                verdicts = {}
                for lab, u in l.updates.items():
                    if u['next'] == u['pre']:
                        continue
                    verdicts[lab] = progress(u['next'], u['pre'], (), s.loops)
                if any(v == 'yes' for v in verdicts.values()):
                    ctx.holds('R7.loops_make_progress', w, 'the position %s advances on every path back to the loop head'
                              % [k for k, v in verdicts.items() if v == 'yes'][0])
                elif any(v == 'stall' for v in verdicts.values()):
                    lab = [k for k, v in verdicts.items() if v == 'stall'][0]
                    ctx.violation('R7.loops_make_progress', w, 'the loop does not advance: `%s` is reassigned a position '
                                  'that can equal its old value (a search that starts at the old position returns it '
                                  'when the first element / pair already matches); the next iteration then repeats with '
                                  'identical state and the printing never returns' % lab,
                                  {'next_value': T.pretty(l.updates[lab]['next'])[:300]})
                else:
                    raise AnalysisBroken('loop at %s is neither a counting loop nor one whose progress is recognised'
                                         % l.node.where())
        ctx.guard('R7', fsite(f), r7)
    ctx.count('loops of the reporting code', nloops, 1)
    # ---------------------------------------------------------------- R5 printing stays in range
    # every checked element access (.at / .front / .back) made while printing must be in range for
    # every state a run can reach: an exception in a verbose mode aborts a run that the silent
    # modes complete.  Preconditions: the callback is called after chkpt.add (>= 1 result), a
    # multi-channel integrand has >= 1 channel.
    from .. import ranges
    targets = [(f, set()) for f in instances(p, 'hep::multi_channel_summary')] + \
        [(f, set(CB_OPAQUE)) for f in instances(p, 'hep::callback::operator()')]
    nacc = 0
    for f, opq in targets:
        ctx.analysed(f)

        def r5(f=f, opq=opq):
            nonlocal nacc
            s, ex = summarise(p, f, opaque=opq, record_access=True)
            pm = ranges.prefix_subst(s.loops)

            def sb(t):
                return T.subst(t, pm) if isinstance(t, tuple) else t
            acc = [(dict(e, index=sb(e['index']), size=sb(e['size']), pc=tuple(sb(c) for c in e['pc'])),
                    [{'idx': x['idx'], 'lo': sb(x['lo']), 'hi': sb(x['hi']),
                      'pc': tuple(sb(c) for c in x.get('pc', ()))} for x in l])
                   for e, l in flat_effects(s.effects) if e['kind'] == 'access']
            if any(x['lo'] is None or x['hi'] is None for e, l in acc for x in l):
                acc2 = []
                for e, l in acc:
                    if any(x['lo'] is None or x['hi'] is None for x in l):
                        ctx.broken('R5.print_in_range', '%s:%s' % (e['where'], f.name), 'the access is inside a loop '
                                   'that is not a counting loop: its index range is not decided')
                    else:
                        acc2.append((e, l))
                acc = acc2
            seen = set()
            for r in ranges.check_accesses(acc):
                key = (r['where'], r['how'], r['index'])
                if key in seen:
                    continue
                seen.add(key)
                nacc += 1
                w = '%s:%s' % (r['where'], f.name)
                if r['verdict'] == 'holds-bounded':
                    ctx.holds('R5.print_in_range', w, '%s(%s): %s' % (r['how'], T.pretty(r['index'])[:60], r['detail']))
                elif r['verdict'] == 'violation':
                    ctx.violation('R5.print_in_range', w, '%s(%s) can be out of range while printing: %s; the '
                                  'exception aborts a run in a printing mode that the silent modes complete'
                                  % (r['how'], T.pretty(r['index'])[:120], r['detail']), r.get('witness'))
                else:
                    ctx.broken('R5.print_in_range', w, '%s(%s): %s' % (r['how'], T.pretty(r['index'])[:80], r['detail']))
        ctx.guard('R5', fsite(f), r5)
    ctx.count('checked element accesses in the printing code', nacc, 6)
