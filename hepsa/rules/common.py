"""Helpers shared by the rule modules."""
from .. import ir, symex, algebra
from .. import terms as T
from ..frontend import AnalysisBroken, strip_targs, short

KERNELS = ['hep::plain_iteration', 'hep::vegas_iteration', 'hep::multi_channel_iteration']
SERIAL_DRIVERS = ['hep::plain', 'hep::vegas', 'hep::multi_channel']
MPI_DRIVERS = ['hep::mpi_plain', 'hep::mpi_vegas', 'hep::mpi_multi_channel']
KERNEL_OF = {'hep::plain': 'hep::plain_iteration', 'hep::vegas': 'hep::vegas_iteration',
             'hep::multi_channel': 'hep::multi_channel_iteration',
             'hep::mpi_plain': 'hep::plain_iteration', 'hep::mpi_vegas': 'hep::vegas_iteration',
             'hep::mpi_multi_channel': 'hep::multi_channel_iteration'}


def site(func_or_node, extra=None):
    s = func_or_node.where()
    if extra:
        s += ':' + extra
    return s


def fsite(func, node=None):
    """site string: file:line:function"""
    base = strip_targs(func.qualname)
    if node is not None and node.loc:
        return '%s:%s' % (node.where(), base.replace('hep::', ''))
    return '%s:%s' % (func.where(), base.replace('hep::', ''))


def flat_effects(effects, loops=()):
    """Yield (effect, loop-context tuple) for all effects including those inside loops."""
    for e in effects:
        if e['kind'] == 'loop':
            for x in flat_effects(e['body'], loops + (e,)):
                yield x
        else:
            yield e, loops


def instances(prog, base):
    fs = prog.find(base)
    if not fs:
        raise AnalysisBroken('anchor vanished: no instantiated body of %s' % base)
    return fs


def allreduce_roles(prog):
    """(index, name) of the five parameters of the internal helper allreduce_result, found by their types so
    that the rules do not depend on the parameter order or names"""
    f = instances(prog, 'hep::allreduce_result')[0]
    roles = {}
    for i, q in enumerate(f.params):
        t = (q.type or '').strip()
        if 'plain_result' in t:
            r = 'result'
        elif 'vector' in t:
            r = 'out' if t.endswith('&') and not t.endswith('&&') and not t.startswith('const') else 'inb'
        elif 'communicator' in t or 'MPI_Comm' in t:
            r = 'comm'
        elif t in ('unsigned long', 'std::size_t', 'size_t', 'unsigned long long', 'unsigned int'):
            r = 'total'
        else:
            raise AnalysisBroken('parameter %s of allreduce_result has an unexpected type %s' % (q.name, t))
        if r in roles:
            raise AnalysisBroken('allreduce_result has two parameters in the role %s' % r)
        roles[r] = (i, q.name)
    if sorted(roles) != ['comm', 'inb', 'out', 'result', 'total']:
        raise AnalysisBroken('allreduce_result does not have its five parameters (communicator, result, buffer, '
                             'in_buffer, total_calls)')
    return roles


def summarise(prog, func, opaque=(), args=None, this=None, **kw):
    ex = symex.SymEx(prog, opaque=opaque, **kw)
    s = ex.summarise(func, args=args, this=this)
    return s, ex


def calls_in(node, pred):
    """All IR nodes below node satisfying pred (pre-order)."""
    return [n for n in node.walk() if pred(n)]


def is_call_to(n, name, hep=None):
    if n.op in ('call', 'mcall') and n.a.get('name') == name:
        if hep is None or bool(n.a.get('hep')) == hep:
            return True
    return False


def check_equal(ctx, rule, where, what, got, want, assume_note=None):
    """Compare two terms over the reals; record HOLDS / VIOLATION with both normal forms."""
    got = algebra.minmax_to_ite(T.canon_idx(got))
    want = algebra.minmax_to_ite(T.canon_idx(want))
    ok, wit = algebra.equal(got, want)
    if ok:
        ctx.holds(rule, where, '%s: normal form equals the documented formula %s'
                  % (what, T.pretty(want)[:300]))
        return True
    w = {'extracted': T.pretty(got)[:1500], 'documented': T.pretty(want)[:1500]}
    if wit:
        w.update(wit)
    ctx.violation(rule, where, '%s differs from the documented formula' % what, w)
    return False


def walk_stmts(node, loops=(), guards=()):
    """Yield (stmt, enclosing loops, enclosing guards) for every statement below node.
    guards: tuple of (cond_node, polarity)."""
    if node is None:
        return
    op = node.op
    if op == 'block':
        for c in node.k:
            for x in walk_stmts(c, loops, guards):
                yield x
        return
    yield node, loops, guards
    if op == 'if':
        for x in walk_stmts(node.k[1], loops, guards + ((node.k[0], True),)):
            yield x
        if len(node.k) > 2 and node.k[2] is not None:
            for x in walk_stmts(node.k[2], loops, guards + ((node.k[0], False),)):
                yield x
    elif op in ('for', 'rangefor', 'while'):
        for x in walk_stmts(node.k[-1], loops + (node,), guards):
            yield x
    elif op == 'do':
        for x in walk_stmts(node.k[0], loops + (node,), guards):
            yield x
    elif op == 'switch':
        for x in walk_stmts(node.k[1], loops, guards):
            yield x
    elif op in ('case', 'default'):
        for c in node.k[(1 if op == 'case' else 0):]:
            for x in walk_stmts(c, loops, guards):
                yield x
    elif op == 'try':
        for c in node.k:
            for x in walk_stmts(c, loops, guards):
                yield x


def exprs_of_stmt(s):
    """Expression roots directly owned by statement s (not those of nested statements)."""
    op = s.op
    if op == 'decl':
        return list(s.k)
    if op == 'expr':
        return list(s.k)
    if op == 'return':
        return list(s.k)
    if op == 'if':
        return [s.k[0]]
    if op == 'for':
        out = []
        if s.k[0] is not None and s.k[0].op == 'decl':
            out += list(s.k[0].k)
        out += [x for x in s.k[1:3] if x is not None]
        return out
    if op == 'rangefor':
        return [s.k[0]]
    if op in ('while',):
        return [s.k[0]]
    if op == 'do':
        return [s.k[1]]
    if op == 'switch':
        return [s.k[0]]
    if op in ('block', 'break', 'continue', 'null', 'case', 'default', 'try', 'catch'):
        return []
    return [s]


class Proxy:
    """forwards to a Ctx with a rule-name prefix (used to run the format rules of C05 as C03/R3);
    `only`: forward only rules whose name starts with one of these prefixes"""
    def __init__(self, ctx, prefix, only=None):
        self._c = ctx
        self._p = prefix
        self._only = only

    def _ok(self, rule):
        return self._only is None or any(rule.startswith(o) for o in self._only)

    def __getattr__(self, n):
        return getattr(self._c, n)

    def holds(self, rule, site, detail):
        if self._ok(rule):
            self._c.holds(self._p + rule, site, detail)

    def violation(self, rule, site, detail, witness=None):
        if self._ok(rule):
            self._c.violation(self._p + rule, site, detail, witness)

    def broken(self, rule, site, detail):
        if self._ok(rule):
            self._c.broken(self._p + rule, site, detail)

    def guard(self, rule, site, fn):
        self._c.guard(self._p + rule, site, fn)

    def count(self, name, n, minimum=None):
        if self._only is None:
            self._c.count(name, n, minimum)

    def analysed(self, f):
        self._c.analysed(f)

    def assume(self, t):
        if self._only is None:
            self._c.assume(t)



def upd_by_pre(ls, term):
    """update record of the loop-carried location whose placeholder is `term`"""
    if isinstance(term, tuple) and len(term) == 3 and term[0] == 'pre' and term[1] == ls.id:
        return ls.updates.get(term[2])
    return None


def upd_by_final(ls, final):
    for u in ls.updates.values():
        if u.get('final') == final:
            return u
    return None


def upd_by_loc(ls, lv):
    for u in ls.updates.values():
        if u.get('loc') == lv:
            return u
    return None


def norm_cond(c):
    """canonical spelling of a condition atom: not(a == b) -> a != b, etc."""
    if isinstance(c, tuple) and c and c[0] == 'not' and isinstance(c[1], tuple) and c[1]:
        inner = c[1]
        flip = {'==': '!=', '!=': '==', '<': '>=', '>=': '<', '>': '<=', '<=': '>'}
        if inner[0] in flip:
            return norm_cond((flip[inner[0]], inner[1], inner[2]))
        if inner[0] == 'not':
            return norm_cond(inner[1])
    if isinstance(c, tuple) and c and c[0] in ('>', '>='):
        return ({'>': '<', '>=': '<='}[c[0]], c[2], c[1])
    if isinstance(c, tuple) and c and c[0] in ('==', '!='):
        a, b = sorted([c[1], c[2]], key=repr)
        return (c[0], a, b)
    return c


def same_cond(a, b):
    return norm_cond(a) == norm_cond(b)


def pc_under(pc, assignment):
    """truth of a path condition when the given terms are replaced by constants (folds through
    the constant-folding term constructors); returns True / False / None (undetermined)"""
    c = T.subst(T.conj(pc), assignment)
    if c == T.TRUE:
        return True
    if c == T.FALSE:
        return False
    return None


def norm_pc(pc):
    return frozenset(norm_cond(c) for c in pc)


def share(ctx, module, prefix, only=None):
    """Run the rules of another property module as shared rules of this one.  Only the property
    being checked pulls in shared rules; never transitively (the sharing graph has cycles)."""
    import importlib
    if isinstance(ctx, Proxy):
        return
    mod = importlib.import_module('hepsa.rules.' + module)
    mod.check(Proxy(ctx, prefix, only))


def calls_list_term(d):
    """term of the driver parameter that holds the per-iteration call counts (found by its type,
    not by its name)"""
    ps = [q for q in d.params if 'vector<std::size_t>' in (q.type or '').replace(' ', '') or
          'vector<unsignedlong' in (q.type or '').replace(' ', '')]
    if len(ps) != 1:
        raise AnalysisBroken('%s: the list of calls per iteration is not a single vector<size_t> parameter'
                             % d.qualname)
    return T.sym(ps[0].name)


def usage_share(n, rank_terms):
    """split a discard amount `usage * share` (either order) into (usage, share): the share is the
    factor that depends on the rank"""
    if not (isinstance(n, tuple) and n and n[0] == '*' and len(n) == 3):
        raise AnalysisBroken('discard amount is not a product usage * share')
    a, b = n[1], n[2]
    da = any(T.occurs(a, r) for r in rank_terms)
    db = any(T.occurs(b, r) for r in rank_terms)
    if db and not da:
        return a, b
    if da and not db:
        return b, a
    return a, b


def exactly_one_path(pcs, max_atoms=8):
    """True iff for every truth assignment of the condition atoms exactly one of the path conditions
    holds (the paths partition the executions); None if there are too many atoms"""
    from itertools import product

    def atoms(c, out):
        if isinstance(c, tuple) and c and c[0] in ('and', 'or'):
            atoms(c[1], out)
            atoms(c[2], out)
        elif isinstance(c, tuple) and c and c[0] == 'not':
            atoms(c[1], out)
        elif c not in (T.TRUE, T.FALSE):
            out.add(pos(c))

    def pos(c):
        # positive spelling of a comparison atom and its polarity are handled by norm_cond
        n = norm_cond(c)
        if isinstance(n, tuple) and n and n[0] == '!=':
            return ('==', n[1], n[2])
        return n

    def ev(c, asg):
        if c == T.TRUE:
            return True
        if c == T.FALSE:
            return False
        if isinstance(c, tuple) and c and c[0] == 'and':
            return ev(c[1], asg) and ev(c[2], asg)
        if isinstance(c, tuple) and c and c[0] == 'or':
            return ev(c[1], asg) or ev(c[2], asg)
        if isinstance(c, tuple) and c and c[0] == 'not':
            return not ev(c[1], asg)
        n = norm_cond(c)
        if isinstance(n, tuple) and n and n[0] == '!=':
            return not asg[('==', n[1], n[2])]
        return asg[n]
    ats = set()
    for pc in pcs:
        for c in pc:
            atoms(c, ats)
    ats = sorted(ats, key=repr)
    if len(ats) > max_atoms:
        return None
    for vals in product((False, True), repeat=len(ats)):
        asg = dict(zip(ats, vals))
        if sum(1 for pc in pcs if all(ev(c, asg) for c in pc)) != 1:
            return False
    return True


def ite_leaves(t):
    if isinstance(t, tuple) and t and t[0] == 'ite':
        return ite_leaves(t[2]) + ite_leaves(t[3])
    return [t]


def simplify_under(t, pc):
    """the term on the paths where every conjunct of the path condition holds: conjuncts are replaced
    by true (their negations by false) wherever they occur as conditions inside the term"""
    m = {}

    def learn(c, val):
        if c in (T.TRUE, T.FALSE) or not isinstance(c, tuple):
            return
        m[c] = T.TRUE if val else T.FALSE
        if c[0] == 'not':
            learn(c[1], not val)
        elif c[0] == 'and' and val:
            learn(c[1], True)
            learn(c[2], True)
        elif c[0] == 'or' and not val:
            learn(c[1], False)
            learn(c[2], False)
        elif c[0] == 'truth':
            learn(c[1], val)
        elif c[0] == 'ite' and len(c) == 4:
            # boolean conditional: ite(q, X, Y) holds / fails
            q, X, Y = c[1], c[2], c[3]
            dead_x = X == (T.FALSE if val else T.TRUE)
            dead_y = Y == (T.FALSE if val else T.TRUE)
            if dead_x and not dead_y:
                learn(q, False)
                learn(Y, val)
            elif dead_y and not dead_x:
                learn(q, True)
                learn(X, val)
        elif c[0] in ('<', '<=', '>', '>=', '==', '!=') and len(c) == 3:
            flip = {'<': '>=', '>=': '<', '>': '<=', '<=': '>', '==': '!=', '!=': '=='}
            mirror = {'<': '>', '>': '<', '<=': '>=', '>=': '<=', '==': '==', '!=': '!='}
            m[(flip[c[0]], c[1], c[2])] = T.FALSE if val else T.TRUE
            m[(mirror[c[0]], c[2], c[1])] = T.TRUE if val else T.FALSE
            m[(flip[mirror[c[0]]], c[2], c[1])] = T.FALSE if val else T.TRUE
    for c in pc:
        learn(c, True)
    prev = None
    cur = t
    for _ in range(4):
        if cur == prev:
            break
        prev = cur
        cur = T.subst(cur, m)
    return cur


def by_case(term, a, b):
    """(term when a == b, term when a != b), whatever the spelling of the test inside the term"""
    def under(v):
        m = {('==', a, b): T.TRUE if v else T.FALSE, ('==', b, a): T.TRUE if v else T.FALSE,
             ('!=', a, b): T.FALSE if v else T.TRUE, ('!=', b, a): T.FALSE if v else T.TRUE}
        return T.subst(term, m)
    return under(True), under(False)


CALLBACK_MODES = ('silent', 'verbose', 'silent_and_write_chkpt', 'verbose_and_write_chkpt')


def under_mode(term, mode_term, m):
    """the term for callback mode m: every comparison of mode_term with an enumerator is decided"""
    mp = {}
    for x in CALLBACK_MODES:
        for a, b in ((mode_term, ('enum', x)), (('enum', x), mode_term)):
            mp[('==', a, b)] = T.TRUE if x == m else T.FALSE
            mp[('!=', a, b)] = T.FALSE if x == m else T.TRUE
    out = T.subst(term, mp)
    # a switch over the mode: ('switch'...) is lowered to equality tests, nothing else to do
    return out


def accumulate_roles(prog):
    """positions of (sum, sum of squares, compensation, value) among the parameters of the internal
    helper hep::accumulate, found from what the function does with them (the order of the parameters
    of an internal helper is free): value = the by-value parameter; sum of squares = the reference
    whose new value is old + value*value; sum = the reference whose new value is old + value when the
    compensation is zero; compensation = the remaining reference"""
    cached = getattr(prog, '_acc_roles', None)
    if cached is not None:
        return cached
    fs = [f for f in prog.find('hep::accumulate') if len(f.params) == 4]
    if not fs:
        raise AnalysisBroken('anchor vanished: hep::accumulate with four parameters')
    f = fs[0]
    ex = symex.SymEx(prog)
    s = ex.summarise(f)
    refs = [i for i, q in enumerate(f.params) if symex.is_mut_ref(q.type)]
    vals = [i for i, q in enumerate(f.params) if not symex.is_ref(q.type)]
    roles = None
    if len(refs) == 3 and len(vals) == 1:
        v = T.sym(f.params[vals[0]].name)
        fin = {i: ex.param_value(s, f.params[i].name) for i in refs}
        pre = {i: T.sym(f.params[i].name) for i in refs}
        sq = [i for i in refs if algebra.equal(fin[i], T.add(pre[i], T.mul(v, v)))[0]]
        if len(sq) == 1:
            rest = [i for i in refs if i != sq[0]]
            sm = None
            for a, b in ((rest[0], rest[1]), (rest[1], rest[0])):
                if algebra.equal(T.subst(fin[a], {pre[b]: T.ZERO}), T.add(pre[a], v))[0]:
                    sm, cp = a, b
                    break
            if sm is not None:
                roles = (sm, sq[0], cp, vals[0])
    if roles is None:
        # unknown shape: keep the declared order (the rules of C14 decide what is wrong with it)
        roles = (0, 1, 2, 3)
    prog._acc_roles = roles
    return roles


def accumulate_args(prog, e):
    """(sum cell, squares cell, compensation cell, value) of an opaque accumulate() call effect, and
    the lvalues bound to the three reference parameters in the same order"""
    r = accumulate_roles(prog)
    a = e['args']
    lvs = e.get('ref_lvs') or {}
    return [a[r[0]], a[r[1]], a[r[2]], a[r[3]]], {0: lvs.get(r[0]), 1: lvs.get(r[1]), 2: lvs.get(r[2])}


# members a constructor may leave indeterminate, with the condition that makes the member unreadable
# (checked on the summary of that constructor, not taken on trust)
UNREAD_MEMBERS = {
    # vegas_chkpt::bins_ is read only by dimensions() when `pdf_` is empty; a constructor that stores a
    # grid in pdf_ never gets there
    ('hep::vegas_chkpt', 'bins_'): lambda this: _known_nonempty(T.size(T.fld(this, 'pdf_'))),
}


def _known_nonempty(sz):
    if T.is_num(sz):
        return sz[1] >= 1
    if isinstance(sz, tuple) and sz and sz[0] == 'ite':
        return _known_nonempty(sz[2]) and _known_nonempty(sz[3])
    if isinstance(sz, tuple) and sz and sz[0] == '+':
        def nn(t):
            return (T.is_num(t) and t[1] >= 0) or (isinstance(t, tuple) and t and t[0] == 'size')
        return (nn(sz[1]) and _known_nonempty(sz[2])) or (_known_nonempty(sz[1]) and nn(sz[2]))
    return False


def members_initialised(ctx, rule, classes, minimum=1):
    """Every user-written constructor of the listed class templates leaves no data member indeterminate:
    a member of scalar type (or an array of scalars) without an initialiser holds an indeterminate value,
    and whatever is computed from it - a sum that does not start at zero, a size, a mode - is undefined.
    The constructor is summarised (base and delegated constructors inlined) and the final value of every
    own member is inspected."""
    p = ctx.prog
    n = 0
    for base in classes:
        short_ = base.split('::')[-1]
        for c in p.find('%s::%s' % (base, short_)):
            if c.is_implicit or c.record is None or getattr(c, 'kind', None) != 'ctor':
                continue
            n += 1
            ctx.analysed(c)

            def r(c=c, base=base):
                s, ex = summarise(p, c)
                bad = []
                for fl in c.record.fields:
                    v = T.fld(s.this, fl['name'])
                    if any(isinstance(t, tuple) and t and t[0] == 'undef' for t in T.subterms(v)):
                        exempt = UNREAD_MEMBERS.get((base, fl['name']))
                        if exempt is not None and exempt(s.this):
                            continue
                        bad.append(fl['name'])
                if bad:
                    ctx.violation(rule, fsite(c), 'the constructor leaves %s indeterminate (no initialiser, not '
                                  'assigned in the body): whatever is computed from it is undefined'
                                  % ', '.join(bad), {'members': bad,
                                                     'parameters': [q.type for q in c.params]})
                else:
                    ctx.holds(rule, fsite(c), 'every data member is initialised (%d members)'
                              % len(c.record.fields))
            ctx.guard(rule, fsite(c), r)
    ctx.count('constructors checked for indeterminate members (%s)' % rule, n, minimum)


FLOAT_TYPES = ('float', 'double', 'long double')
# functions that compute in another floating-point type on purpose
OTHER_PRECISION_OK = {
    'hep::random_number_usage': 'mirrors the computation of std::generate_canonical, which the standard specifies in '
                                'long double',
}


def functions_behind(prog, prefixes):
    """instantiated library functions whose name matches one of the prefixes, plus every library function they
    reach through resolved calls (helpers a change may introduce are covered without being named)"""
    roots = []
    for name, fs in prog.by_name.items():
        if any(name == pre or (pre.endswith('::') and name.startswith(pre)) for pre in prefixes):
            roots += [f for f in fs if f.body is not None and not f.is_pattern]
    seen = {}
    todo = list(roots)
    while todo:
        f = todo.pop()
        if f.id in seen:
            continue
        seen[f.id] = f
        for nd in f.body.walk():
            if nd.op in ('call', 'mcall', 'opcall', 'construct') and nd.a.get('hep') and nd.a.get('id'):
                g = prog.funcs.get(nd.a['id'])
                if g is not None and g.body is not None and not g.is_pattern and g.id not in seen and \
                        (g.qualname or '').startswith('hep::'):
                    todo.append(g)
    return list(seen.values())


NARROW_INTS = ('int', 'unsigned int', 'short', 'unsigned short', 'char', 'signed char', 'unsigned char')


def counters_full_width(ctx, rule, prefixes, minimum=1):
    """Call counters and indices are std::size_t from where they are counted to where they are reported: in the
    listed functions (and the library functions they reach) no variable, call result or sub-expression has an
    integer type narrower than that (`std::accumulate(b, e, 0, ..)` sums in an int whatever the lambda returns:
    totals beyond 2^31 wrap).  Literals and the constants of std::numeric_limits are exempt."""
    p = ctx.prog
    n = 0
    for f in functions_behind(p, prefixes):
        n += 1
        ctx.analysed(f)

        def r(f=f):
            bad = []
            for nd in f.body.walk():
                t = ir.strip_cvref(nd.ty or '') if isinstance(nd.ty, str) else ''
                # (a) the result of a (library) call computed in a narrow integer type, e.g. std::accumulate with an
                #     `int` initial value; (b) a count converted to a narrower integer type.  A small loop variable of
                #     type int (a dimension index) is neither.
                if t in NARROW_INTS and nd.op in ('call', 'mcall') and not nd.a.get('hep'):
                    txt = ir.show(nd)
                    if 'digits' in txt or 'max_digits10' in txt or 'peek' in txt:
                        continue
                    bad.append(nd)
                elif nd.op == 'cast' and nd.a.get('kind') == 'IntegralCast' and nd.a.get('narrowing') and \
                        (nd.a.get('to') or '') in NARROW_INTS and nd.k and nd.k[0].op != 'lit':
                    bad.append(nd)
            if bad:
                b = min(bad, key=lambda x: (x.line or 0))
                ctx.violation(rule, '%s:%s' % (b.where(), strip_targs(f.qualname).replace('hep::', '')),
                              'an expression of type %s where call counters are computed: counts beyond the range of '
                              'that type (2^31) wrap (%d such expressions in this function)' % (ir.strip_cvref(b.ty), len(bad)),
                              {'expression': ir.show(b)[:160]})
            else:
                ctx.holds(rule, fsite(f), 'no integer expression narrower than std::size_t')
        ctx.guard(rule, fsite(f), r)
    ctx.count('functions checked for full-width counters (%s)' % rule, n, minimum)


def single_precision(ctx, rule, prefixes, minimum=1):
    """All arithmetic of the listed functions happens in the numeric type T of the instantiation: no
    sub-expression, variable, call result or template argument deduced from a literal has another
    floating-point type (`std::accumulate(b, e, 0.0)` sums in double whatever T is, `x * 0.5` promotes a float,
    an unqualified math call may pick the double overload).  Literals themselves and the `long double` second
    argument of nexttoward are the only exceptions.  Decided on the typed syntax tree of every listed function in
    each analysed instantiation (float, double, long double)."""
    p = ctx.prog
    funcs = functions_behind(p, prefixes)
    n = 0
    for f in funcs:
        if strip_targs(f.qualname) in OTHER_PRECISION_OK:
            continue
        n += 1
        ctx.analysed(f)

        def r(f=f):
            bad = []
            stack = [(f.body, None)]
            while stack:
                nd, parent = stack.pop()
                t = ir.strip_cvref(nd.ty or '') if isinstance(nd.ty, str) else ''
                if t in FLOAT_TYPES and t != p.numeric and nd.op != 'lit':
                    in_nexttoward = parent is not None and parent.op == 'call' and \
                        'nexttoward' in (parent.a.get('name') or '') and t == 'long double'
                    if not in_nexttoward:
                        bad.append(nd)
                for c in nd.k:
                    if isinstance(c, ir.N):
                        stack.append((c, nd))
            if bad:
                b = min(bad, key=lambda x: (x.line or 0))
                ctx.violation(rule, '%s:%s' % (b.where(), strip_targs(f.qualname).replace('hep::', '')),
                              'an expression of type %s in the instantiation for T = %s: this part is computed with the '
                              'precision / range of another floating-point type (%d such expressions in this function)'
                              % (ir.strip_cvref(b.ty), p.numeric, len(bad)), {'expression': ir.show(b)[:160]})
            else:
                ctx.holds(rule, fsite(f), 'every floating-point expression has type T = %s' % p.numeric)
        ctx.guard(rule, fsite(f), r)
    ctx.count('functions checked for a single floating-point type (%s)' % rule, n, minimum)


def no_static_state(ctx, rule, prefixes=('hep::',), minimum=20):
    """No function of the library keeps state in a function-local `static` variable that is initialised from
    its arguments: such a variable is initialised by the first call in the process and silently reused by every
    later call (the second iteration, a resumed run, another integration), which then computes with the first
    call's data.  A static initialised from constants only is harmless.  Decided on the syntax tree of every
    instantiated function whose qualified name starts with one of the prefixes."""
    p = ctx.prog
    n = 0
    bad = []
    for name, fs in p.by_name.items():
        if not any(name.startswith(pre) for pre in prefixes):
            continue
        for f in fs:
            if f.body is None or f.is_pattern:
                continue
            n += 1
            local_ids = set(q.id for q in f.params)
            for nd in f.body.walk():
                if nd.op in ('decl', 'rangefor') and nd.a.get('id') is not None:
                    local_ids.add(nd.a['id'])
            for nd in f.body.walk():
                if nd.op == 'decl' and nd.a.get('static'):
                    # run-time values: parameters, locals, members of *this (constants of other classes such as
                    # std::numeric_limits<T>::digits are compile-time values)
                    dyn = any((x.op == 'var' and x.a.get('id') in local_ids) or x.op in ('this',) or
                              (x.op == 'mem' and any(y.op == 'this' for y in x.walk()))
                              for k_ in nd.k if isinstance(k_, ir.N) for x in k_.walk())
                    if dyn:
                        bad.append((f, nd))
    ctx.count('functions scanned for static local state (%s)' % rule, n, minimum)
    seen = set()
    for f, nd in bad:
        key = (strip_targs(f.qualname), nd.where())
        if key in seen:
            continue
        seen.add(key)
        ctx.violation(rule, '%s:%s' % (nd.where(), strip_targs(f.qualname).replace('hep::', '')),
                      'the function-local static `%s` is initialised from the arguments of the first call and reused '
                      'by every later call: later iterations / runs compute with stale data' % nd.a.get('name'),
                      {'declaration': ir.show(nd)[:200]})
    if not bad:
        ctx.holds(rule, 'include/hep/mc:%d functions' % n, 'no function-local static initialised from run-time values')


def no_hiding_in_hierarchy(ctx, rule, minimum=3):
    """Checkpoints are handed around through references to their base classes (a callback instantiated on
    `vegas_chkpt<T>` receives a `chkpt_with_rng<Engine, vegas_chkpt<T>>`): a member function that a derived
    class re-declares with the same parameters must be virtual in the base, otherwise the call through the base
    runs the base version and the derived part of the object (the generators) is skipped.  For every
    instantiated library class with bases, every own non-static member function is compared with the member
    functions of the same name and parameter types in all transitive bases."""
    p = ctx.prog

    def all_bases(r, seen):
        for b in r.bases:
            br = p.record_of_type(b)
            if br is not None and br.id not in seen:
                seen.add(br.id)
                yield br
                for x in all_bases(br, seen):
                    yield x
    n = 0
    bad = []
    for r in p.records.values():
        if r.is_pattern or not (r.qualname or '').startswith('hep::') or not r.bases:
            continue
        bases = list(all_bases(r, set()))
        for m in r.methods:
            if m.kind != 'method' or m.is_static or m.is_implicit or m.name.startswith('operator='):
                continue
            for br in bases:
                for bm in br.methods:
                    if bm.kind == 'method' and bm.name == m.name and not bm.is_static and \
                            [q.type for q in bm.params] == [q.type for q in m.params]:
                        n += 1
                        if not bm.is_virtual:
                            bad.append((r, m, br, bm))
    ctx.count('member functions re-declared in a derived class (%s)' % rule, n, minimum)
    seen = set()
    for r, m, br, bm in bad:
        key = (strip_targs(r.qualname), m.name, strip_targs(br.qualname))
        if key in seen:
            continue
        seen.add(key)
        ctx.violation(rule, '%s:%s::%s' % (m.where(), strip_targs(r.qualname).replace('hep::', ''), m.name),
                      '%s::%s hides %s::%s, which is not virtual: a call through a reference to the base class runs '
                      'the base version only' % (strip_targs(r.qualname), m.name, strip_targs(br.qualname), bm.name),
                      {'base_declaration': bm.where()})
    if not bad:
        ctx.holds(rule, 'include/hep/mc:%d overrides' % n, 'every member function re-declared in a derived class '
                  'overrides a virtual function')


def by_reference_parameters(ctx, rule, names, minimum=1):
    """The listed functions receive their checkpoint / result arguments by reference: a by-value parameter of a
    base-class type copies only the base part of the object that is passed (slicing), and everything the
    derived class adds - the random number generators of chkpt_with_rng - is gone."""
    p = ctx.prog
    n = 0
    for nm in names:
        for f in p.find(nm):
            for q in f.params:
                t = (q.type or '').strip()
                rec = p.record_of_type(ir.strip_cvref(t))
                if rec is None or not (rec.qualname or '').startswith('hep::'):
                    continue
                n += 1
                if t.endswith('&'):
                    ctx.holds(rule, fsite(f), 'parameter %s is taken by reference' % q.name)
                else:
                    ctx.violation(rule, fsite(f), 'parameter %s of class type %s is taken by value: an argument of '
                                  'a derived type is sliced (a checkpoint loses its generators before it is '
                                  'serialised)' % (q.name, ir.strip_cvref(t)[:80]))
    ctx.count('class-type parameters (%s)' % rule, n, minimum)


def no_use_after_move(ctx, rule, names, opaque=(), minimum=1):
    """No object is read after it has been the argument of std::move in a move construction / move assignment /
    by-value parameter (its state is unspecified; a moved-from vector is empty, a moved-from engine of a user type
    has lost its state), neither later on the same path nor - for a variable that lives across the iterations of
    a loop - in the next iteration.  Decided on the summaries of the named functions: the summariser replaces the
    source of a move by a `moved` marker and records every read of such a marker."""
    p = ctx.prog
    n = 0
    for nm in names:
        for f in p.find(nm):
            if f.body is None or f.is_pattern:
                continue
            n += 1
            ctx.analysed(f)

            def r(f=f):
                s, ex = summarise(p, f, opaque=set(opaque))
                reads = [e for e, l in flat_effects(s.effects) if e['kind'] == 'moved_read']
                if reads:
                    e = reads[0]
                    ctx.violation(rule, '%s:%s' % (e['where'], strip_targs(f.qualname).replace('hep::', '')),
                                  '`%s` is read after it was moved from (std::move at %s): its value is unspecified '
                                  '(an empty container, an engine without its state)' % (e['var'], e['moved_at']))
                    return
                for l in s.loops:
                    for lab, u in l.updates.items():
                        nx = u.get('next')
                        if isinstance(nx, tuple) and any(isinstance(t, tuple) and t and t[0] == 'moved' for t in T.subterms(nx)):
                            used = any(T.occurs(x, u['pre']) for e_, _ in flat_effects(l.effects)
                                       for x in (list(e_.get('args') or []) + [e_.get('obj'), e_.get('gen'), e_.get('n')])
                                       if isinstance(x, tuple)) or \
                                any(T.occurs(u2['next'], u['pre']) for l2, u2 in l.updates.items() if l2 != lab)
                            if used or True:
                                mv = [t for t in T.subterms(nx) if isinstance(t, tuple) and t and t[0] == 'moved'][0]
                                ctx.violation(rule, '%s:%s' % (mv[2], strip_targs(f.qualname).replace('hep::', '')),
                                              '`%s` is moved from inside the loop and used again by the next iteration: '
                                              'from the second iteration on the loop works with an object in an '
                                              'unspecified state' % lab)
                                return
                # a moved-from object returned to the caller
                if isinstance(s.ret, tuple) and any(isinstance(t, tuple) and t and t[0] == 'moved' for t in T.subterms(s.ret)):
                    ctx.violation(rule, fsite(f), 'the function returns an object it has moved from on some path',
                                  {'returns': T.pretty(s.ret)[:300]})
                    return
                ctx.holds(rule, fsite(f), 'no read of a moved-from object')
            ctx.guard(rule, fsite(f), r)
    ctx.count('functions checked for use after move (%s)' % rule, n, minimum)
