"""C01 - sampling weights make every integrator an unbiased estimator."""
import sympy as sp

from .. import terms as T
from .. import algebra
from ..terms import sym, add, mul, sub, div, ZERO, ONE, fld, sel, ite
from .common import *


def check(ctx):
    p = ctx.prog
    # no state survives from one call to the next in a function-local static
    no_static_state(ctx, 'state.no_static_locals')
    # all arithmetic behind this property happens in the numeric type T of the instantiation
    single_precision(ctx, 'prec.single_type', ['hep::mc_point::', 'hep::vegas_point::', 'hep::multi_channel_point::', 'hep::multi_channel_point2::', 'hep::plain_iteration', 'hep::vegas_iteration', 'hep::multi_channel_iteration', 'hep::vegas_icdf'], 1)
    # no constructor of the classes this property computes with leaves a member indeterminate
    members_initialised(ctx, 'init.members', ['hep::mc_point', 'hep::vegas_point', 'hep::multi_channel_point', 'hep::multi_channel_point2'], 3)
    ctx.assume('measure preservation argument: a piecewise-linear monotone map onto the bins with '
               'weight = its derivative preserves the integral; E[f J / sum_j a_j p_j] = int f for '
               'normalised channel densities (spec/formulas.py)')
    PDF = sym('pdf')
    bins = fld(PDF, 'bins_')
    # ---------------------------------------------------------------- R1 vegas_icdf
    f = p.one('hep::vegas_icdf')
    ctx.analysed(f)

    def r1():
        s, ex = summarise(p, f)
        where = fsite(f)
        ls = [l for l in s.loops if l.func is f]
        if len(ls) != 1:
            raise AnalysisBroken('per-dimension loop of vegas_icdf not recognised')
        l = ls[0]
        dims = fld(PDF, 'dimensions_')
        if (l.lo, l.hi) != (ZERO, dims):
            ctx.violation('R1.all_dimensions', where, 'not every dimension is transformed',
                          {'range': [T.pretty(l.lo), T.pretty(l.hi)]})
        xu = upd_by_loc(l, ('lv', f.params[1].id, ()))
        prods = [u for u in l.updates.values() if u['kind'] == 'prod']
        wu = None
        for u in prods:
            if u['final'] == s.ret:
                wu = u
        if wu is None and prods and all(T.occurs(s.ret, u['final']) for u in prods) and len(prods) > 1:
            ctx.violation('R1.weight_product', where, 'the returned weight is assembled from %d separate running '
                          'products instead of one running product of the per-dimension jacobian factor '
                          '(R - L)*bins: the partial products (cell volume, number of cells) under- or overflow '
                          'in many dimensions although the weight itself is of order one' % len(prods),
                          {'returned': T.pretty(s.ret)[:300],
                           'abstract_counterexample': 'float, 20 dimensions, 128 bins: prod(bins) = 128^20 overflows'})
            return
        if wu is None and len(prods) == 1 and T.occurs(s.ret, prods[0]['final']) and \
                any(isinstance(t, tuple) and t and t[0] == 'fn' and t[1] in ('pow', 'exp', 'ldexp', 'scalbn')
                    for t in T.subterms(s.ret)):
            ctx.violation('R1.weight_product', where, 'the returned weight is a running product that is rescaled by a '
                          'power afterwards (cell volume x bins^dimensions) instead of the running product of the '
                          'per-dimension jacobian factor (R - L)*bins: both factors under- / overflow in many dimensions '
                          'although the weight itself is of order one', {'returned': T.pretty(s.ret)[:300],
                          'abstract_counterexample': 'float, 19 dimensions, 128 bins: 128^19 = 2^133 overflows'})
            return
        if wu is None or xu is None or xu['kind'] != 'map':
            raise AnalysisBroken('weight product / coordinate map of vegas_icdf not recognised')
        if wu['init'] != ONE:
            ctx.violation('R1.weight_product', where, 'the weight does not start from 1',
                          {'init': T.pretty(wu['init'])})
        elif s.ret != wu['final']:
            ctx.violation('R1.weight_product', where, 'the returned weight is not the product of the '
                          'per-dimension factors', {'returned': T.pretty(s.ret)[:300]})
        else:
            ctx.holds('R1.weight_product', where, 'returned weight = product over all dimensions of the '
                      'per-dimension factor, starting from 1')
        i = l.idx
        factor = wu['body']
        X = xu['body']
        # abstract the guarded canonical number and the truncated index
        truncs = set(t for t in T.subterms(X) if isinstance(t, tuple) and t and t[0] == 'trunc')
        truncs |= set(t for t in T.subterms(factor) if isinstance(t, tuple) and t and t[0] == 'trunc')
        if len(truncs) != 1:
            raise AnalysisBroken('expected one bin index expression, found %d' % len(truncs))
        tr = truncs.pop()
        pos = tr[1]
        if not (isinstance(pos, tuple) and pos[0] == '*' and bins in (pos[1], pos[2])):
            raise AnalysisBroken('position is not u * bins')
        uu = pos[1] if pos[2] == bins else pos[2]
        U, I = sym('U'), sym('I')
        m = {tr: I, uu: U}
        Xs = T.subst(T.subst(X, {tr: I}), {uu: U})
        Fs = T.subst(T.subst(factor, {tr: I}), {uu: U})
        xs = fld(PDF, 'x')
        row = mul(i, add(bins, ONE))
        L = sel(xs, add(row, I))
        R_ = sel(xs, add(row, add(I, ONE)))
        ok1 = check_equal(ctx, 'R1.left_end', where, 'coordinate at u = idx/bins is the left boundary of bin idx',
                          T.subst(Xs, {U: div(I, bins)}), L)
        ok2 = check_equal(ctx, 'R1.right_end', where, 'coordinate at u = (idx+1)/bins is the right boundary',
                          T.subst(Xs, {U: div(add(I, ONE), bins)}), R_)
        # the coordinate map is the documented piecewise-linear map and the weight factor is its
        # derivative with respect to u (the weight is the jacobian)
        spec_x = add(L, mul(sub(mul(U, bins), I), sub(R_, L)))
        check_equal(ctx, 'R1.coordinate', where, 'coordinate = L + (u*bins - idx)*(R - L)', Xs, spec_x)
        d = sp.diff(algebra.to_sympy(spec_x), algebra.S('U'))
        want_factor = mul(sub(R_, L), bins)
        if not algebra.is_zero(d - algebra.to_sympy(want_factor)):
            raise AnalysisBroken('derivative of the documented map is not (R-L)*bins')
        check_equal(ctx, 'R1.jacobian', where, 'per-dimension weight factor = d(coordinate)/du = (R - L)*bins',
                    Fs, want_factor)
    ctx.guard('R1', fsite(f), r1)

    # ---------------------------------------------------------------- R2 multi channel weight
    ws = [w for w in instances(p, 'hep::multi_channel_point2::weight')]
    ctx.count('multi_channel_point2::weight instantiations', len(ws), 1)
    for w in ws:
        ctx.analysed(w)

        def r2(w=w):
            th = T.mkobj(w.record.qualname, {'weight_': ZERO}, origin=sym('this'))
            s, ex = summarise(p, w, this=th)
            where = fsite(w)
            uc = [e for e, l in flat_effects(s.effects) if e['kind'] == 'ucall']
            if len(uc) != 1:
                raise AnalysisBroken('expected exactly one call of the channel map in weight()')
            e = uc[0]
            t0 = sym('this')
            want_args = [fld(t0, 'channel_'), fld(t0, 'point_'), fld(t0, 'coordinates_'),
                         fld(t0, 'enabled_channels_'), fld(t0, 'densities_'), ('enum', 'calculate_densities')]
            if e['args'] == want_args:
                ctx.holds('R2.map_call', where, 'densities requested with (channel, random numbers, '
                          'coordinates, enabled channels, densities buffer, calculate_densities)')
            else:
                ctx.violation('R2.map_call', where, 'the map is not asked for densities with the '
                              'objects of this point', {'args': [T.pretty(a)[:120] for a in e['args']]})
            jac = ('ucall', e['id'], e['functor'])
            dens = ('uout', e['id'], 4)
            cw = fld(t0, 'channel_weights_')
            k = sym('_k')
            want = div(jac, ('sum', k, ZERO, T.size(cw), mul(sel(cw, k), sel(dens, k))))
            check_equal(ctx, 'R2.weight', where, 'weight = map(...densities) / sum over ALL channels of '
                        'alpha_j * p_j', s.ret, want)
            if fld(s.this, 'weight_') == s.ret:
                ctx.holds('R2.cached', where, 'the computed weight is stored and returned')
            else:
                ctx.violation('R2.cached', where, 'the returned weight differs from the stored weight')
        ctx.guard('R2', fsite(w), r2)

    # ---------------------------------------------------------------- R3 weight applied exactly once
    ninv = 0
    for f2 in instances(p, 'hep::accumulator::invoke'):
        ctx.analysed(f2)
        ninv += 1

        def r3(f2=f2):
            s, ex = summarise(p, f2, opaque={'hep::accumulate'})
            where = fsite(f2)
            uc = [e for e, l in flat_effects(s.effects) if e['kind'] == 'ucall']
            acc = [e for e, l in flat_effects(s.effects) if e['kind'] == 'hcall' and e['name'] == 'hep::accumulate']
            wc = [e for e, l in flat_effects(s.effects) if e['kind'] in ('vcall', 'hcall') and e['name'].endswith('::weight')]
            if len(uc) != 1 or len(acc) != 1:
                raise AnalysisBroken('invoke: integrand call / accumulate not recognised')
            pt = sym('point')
            if uc[0]['args'][0] != pt:
                ctx.violation('R3.same_point', where, 'the integrand is not called with the point handed to invoke')
                return
            fv = ('ucall', uc[0]['id'], uc[0]['functor'])
            if len(wc) != 1 or wc[0]['obj'] != pt:
                ctx.violation('R3.same_point', where, 'weight() is not taken (exactly once) from the point '
                              'the integrand was evaluated at', {'weight_calls': len(wc)})
                return
            wt = (wc[0]['kind'], wc[0]['name'], wc[0]['obj'])
            ok, wit = algebra.equal(accumulate_args(p, acc[0])[0][3], mul(fv, wt))
            if ok:
                ctx.holds('R3.same_point', where, 'accumulated value = f(point) * point.weight(), the '
                          'virtual weight of the same point, applied exactly once')
            else:
                ctx.violation('R3.same_point', where, 'accumulated value is not f * weight', wit)
            # the projector handed to the integrand refers to the same point
            if len(uc[0]['args']) > 1:
                pr = uc[0]['args'][1]
                ref = fld(pr, 'point_')
                okp = isinstance(ref, tuple) and ref[0] == 'ref' and ex.read(s.state, ref[1]) == pt
                if okp:
                    ctx.holds('R3.projector_point', where, 'the projector is bound to the same point')
                else:
                    ctx.violation('R3.projector_point', where, 'the projector handed to the integrand is '
                                  'not bound to the point being evaluated', {'point_': T.pretty(ref)[:200]})
        ctx.guard('R3', fsite(f2), r3)
    ctx.count('accumulator::invoke instantiations', ninv, 6)

    from . import C11 as _c11
    adds = instances(p, 'hep::projector::add')
    ctx.count('projector::add definitions', len(adds), 2)
    for a in adds:
        ctx.analysed(a)

        def rp(a=a):
            tgt = 'hep::accumulator::add_to_1d_distribution' if len(a.params) == 3 else \
                'hep::accumulator::add_to_2d_distribution'
            s, ex = summarise(p, a, opaque={tgt})
            calls = [e for e, l in flat_effects(s.effects) if e['kind'] == 'hcall' and e['name'] == tgt]
            wv = ('vcall', 'hep::mc_point::weight', fld(sym('this'), 'point_'))
            if len(calls) == 1 and calls[0]['pc'] == () and T.same(calls[0]['args'][-1], mul(sym(a.params[-1].name), wv)):
                ctx.holds('R3.projector', fsite(a), 'distribution values are multiplied by the weight of '
                          'the point exactly once')
            else:
                ctx.violation('R3.projector', fsite(a), 'a value handed to a distribution is not '
                              'multiplied by the point weight exactly once',
                              {'forwarded': [T.pretty(x)[:200] for x in (calls[0]['args'] if calls else [])]})
        ctx.guard('R3.projector', fsite(a), rp)

    # the weights in the denominator of the point weight are the selection probabilities (R5)
    from . import C19
    from .common import Proxy, share
    share(ctx, 'C19', 'R5/C19.', ['R1.'])
    # ... and they are probabilities: the selector normalises its cumulative sums, the point weight
    # uses the raw alphas, so the estimator is unbiased only if every weight vector an iteration is
    # run with sums to one (C08/R3: last write = division by the sum; first weights: C08/R5)
    share(ctx, 'C08', 'R5/C08.', ['R3.normalised', 'R5.', 'R6.'])
    share(ctx, 'C09', 'R5/C09.', ['R1.', 'R2.', 'R4.channel_from_selector'])
    # every coordinate of the hypercube must be sampled: one fresh canonical number per dimension
    share(ctx, 'C10', 'R7/C10.', ['R1.draws_per_call'])
    share(ctx, 'C17', 'R7/C17.', ['R4.unit_interval', 'R1.same_map_object', 'R1.same_objects'])
    # MPI: the calls of an iteration are split over the ranks of the communicator that is reduced over
    share(ctx, 'C04', 'R6/C04.', ['R8.', 'R5.'])
    # the estimate averages over ALL calls: the counts handed to the result are the roles the result expects
    share(ctx, 'C02', 'R8/C02.', ['R5.'])
    # under MPI the sum of the shares is the number of calls the total is divided by (shared with C16)
    share(ctx, 'C16', 'R9/C16.', ['R1.', 'R2.'])

    # ---------------------------------------------------------------- R4 PLAIN weight is one
    for f3 in instances(p, 'hep::plain_iteration'):
        ctx.analysed(f3)

        def r4(f3=f3):
            s, ex = summarise(p, f3, opaque={'hep::accumulator::invoke', 'hep::accumulator::result',
                                             'hep::make_accumulator'})
            inv = [e for e, l in flat_effects(s.effects) if e['kind'] == 'hcall'
                   and e['name'] == 'hep::accumulator::invoke']
            if len(inv) != 1:
                raise AnalysisBroken('plain_iteration: invoke not found')
            pt = inv[0]['args'][1]
            if isinstance(pt, tuple) and pt[0] == 'obj' and fld(pt, 'weight_') == ONE:
                ctx.holds('R4.plain_weight_one', fsite(f3), 'PLAIN points carry the weight 1 (default '
                          'argument of mc_point resolved from the AST)')
            else:
                ctx.violation('R4.plain_weight_one', fsite(f3), 'PLAIN points do not carry the weight 1',
                              {'weight_': T.pretty(fld(pt, 'weight_'))[:200]})
        ctx.guard('R4', fsite(f3), r4)
    mw = p.one('hep::mc_point::weight')

    def r4b():
        s, ex = summarise(p, mw)
        if s.ret == fld(sym('this'), 'weight_'):
            ctx.holds('R4.weight_getter', fsite(mw), 'mc_point::weight() returns the stored weight')
        else:
            ctx.violation('R4.weight_getter', fsite(mw), 'mc_point::weight() does not return the stored weight',
                          {'returns': T.pretty(s.ret)[:200]})
    ctx.guard('R4.weight_getter', fsite(mw), r4b)
    # vegas_point stores the weight computed by vegas_icdf for the same pdf / buffers
    for vp in [c for c in instances(p, 'hep::vegas_point::vegas_point') if len(c.params) == 3 and not c.is_implicit]:
        ctx.analysed(vp)

        def r4c(vp=vp):
            s, ex = summarise(p, vp, opaque={'hep::vegas_icdf'})
            calls = [e for e, l in flat_effects(s.effects) if e['kind'] == 'hcall' and e['name'] == 'hep::vegas_icdf']
            want = [sym('pdf'), sym('random_numbers'), sym('bin')]
            if len(calls) == 1 and calls[0]['args'] == want and \
                    fld(s.this, 'weight_') == ('hcall', 'hep::vegas_icdf') + tuple(want):
                ctx.holds('R4.vegas_point', fsite(vp), 'vegas_point weight = vegas_icdf(pdf, random_numbers, bin) '
                          'for the buffers the point refers to')
            else:
                ctx.violation('R4.vegas_point', fsite(vp), 'vegas_point does not store the weight returned by '
                              'vegas_icdf for its own buffers', {'weight_': T.pretty(fld(s.this, 'weight_'))[:300]})
        ctx.guard('R4.vegas_point', fsite(vp), r4c)
