"""C16 - the MPI work split tiles the calls exactly (DESIGN.md section 4, C16)."""
import os
import sys

from .. import terms as T
from ..terms import sym, add, mul, sub
from .common import *
from .C12 import DRV_OPAQUE

sys.path.insert(0, os.path.dirname(os.path.dirname(os.path.dirname(os.path.abspath(__file__)))))
from spec import formulas as F   # noqa

OPAQUE = {'hep::plain_iteration', 'hep::vegas_iteration', 'hep::multi_channel_iteration',
          'hep::allreduce_result', 'hep::mpi_callback::operator()', 'hep::chkpt_with_rng::add',
          'hep::chkpt_with_rng::generator', 'hep::vegas_chkpt::pdf', 'hep::vegas_chkpt::dimensions',
          'hep::multi_channel_chkpt::channels', 'hep::multi_channel_chkpt::channel_weights',
          'hep::vegas_refine_pdf', 'hep::multi_channel_refine_weights', 'hep::random_number_usage'}


def check(ctx):
    p = ctx.prog
    N, W, r, c = F.N, F.W, F.r, F.c
    ctx.assume('size_t arithmetic does not wrap (usage*N < 2^64)')
    ctx.assume('tiling theorem proved on paper from the canonical forms (spec/formulas.py)')

    # R1a discard_before
    f = p.one('hep::discard_before')
    ctx.analysed(f)

    def r1a():
        s, ex = summarise(p, f, args={'total_calls': N, 'rank': r, 'world': W})
        check_equal(ctx, 'R1.before', fsite(f), 'discard_before(N, r, W)', s.ret,
                    F.split_before(N, r, W))
    ctx.guard('R1.before', fsite(f), r1a)

    # R1b discard_after
    g = p.one('hep::discard_after')
    ctx.analysed(g)

    def r1b():
        s, ex = summarise(p, g, args={'total_calls': N, 'calls': c, 'rank': r, 'world': W})
        plain = sub(sub(N, F.split_before(N, r, W)), c)
        if algebra.equal(algebra.minmax_to_ite(T.canon_idx(s.ret)), algebra.minmax_to_ite(T.canon_idx(plain)))[0]:
            # without the clamp: the same value wherever before + calls <= total, which the tiling identity gives for
            # the share every driver passes (before(r) + sub(r) = before(r+1) <= N; R2 decides that the call sites
            # pass exactly that share)
            ctx.holds('R1.after', fsite(g), 'discard_after(N, c, r, W) = N - before - c (the clamp at 0 is never '
                      'active for the canonical share, which R2 establishes at every call site)')
        else:
            check_equal(ctx, 'R1.after', fsite(g), 'discard_after(N, c, r, W)', s.ret,
                        F.split_after(N, c, r, W))
    ctx.guard('R1.after', fsite(g), r1b)

    # R1c / R2: the three MPI drivers
    nsites = 0
    for name in MPI_DRIVERS:
        for d in instances(p, name):
            ctx.analysed(d)

            def drv(d=d, name=name):
                nonlocal nsites
                s, ex = summarise(p, d, opaque=OPAQUE)
                kern = KERNEL_OF[name]
                effs = list(flat_effects(s.effects))
                kcalls = [(e, l) for e, l in effs if e['kind'] == 'hcall' and e['name'] == kern]
                discards = [(e, l) for e, l in effs if e['kind'] == 'discard']
                if len(kcalls) != 1:
                    raise AnalysisBroken('%d kernel calls in %s' % (len(kcalls), d.qualname[:60]))
                ke, loops = kcalls[0]
                if len(loops) != 1:
                    raise AnalysisBroken('kernel call of %s is not inside exactly one loop' % name)
                nsites += 1
                lp = loops[0]
                Nk = None
                # the per-iteration total: element of the calls list
                subcalls = ke['args'][1]
                cands = [t for t in T.subterms(subcalls) if isinstance(t, tuple) and t[0] == 'sel'
                         and t[2] == lp['idx']]
                if not cands:
                    raise AnalysisBroken('cannot identify the per-iteration total in sub_calls')
                Nk = cands[0]
                m = {Nk: N, sym('size()'): W, sym('rank()'): r}
                where = fsite(d, ex.p.funcs[d.id].body) if False else '%s:%s' % (ke['where'], name.replace('hep::', ''))
                check_equal(ctx, 'R1.sub_calls', where, 'sub_calls passed to the kernel',
                            T.subst(subcalls, m), F.split_sub_calls(N, r, W))
                # discards: before the kernel: usage*before(N, r, W); after: usage*after(N, sub, r, W)
                before = [x for x in discards if effs.index(x) < effs.index(kcalls[0])]
                after = [x for x in discards if effs.index(x) > effs.index(kcalls[0])]
                if len(before) != 1 or len(after) != 1:
                    ctx.violation('R2.discards', where,
                                  'expected exactly one discard before and one after the kernel, '
                                  'found %d / %d' % (len(before), len(after)))
                    return
                nb = T.subst(before[0][0]['n'], m)
                na = T.subst(after[0][0]['n'], m)
                nb = ('*',) + usage_share(nb, (r, W))
                na = ('*',) + usage_share(na, (r, W))
                if nb[1] != na[1]:
                    ctx.violation('R2.usage_same', where, 'the two discards use different per-call '
                                  'usage factors', {'before': T.pretty(nb[1])[:400],
                                                    'after': T.pretty(na[1])[:400]})
                else:
                    ctx.holds('R2.usage_same', where, 'both discards scale by the same usage factor')
                check_equal(ctx, 'R2.discard_before', '%s:%s' % (before[0][0]['where'], name.replace('hep::', '')),
                            'calls skipped before the share (argument order calls, rank, world)',
                            nb[2], F.split_before(N, r, W))
                plain_a = sub(sub(N, F.split_before(N, r, W)), F.split_sub_calls(N, r, W))
                if algebra.equal(algebra.minmax_to_ite(T.canon_idx(na[2])), algebra.minmax_to_ite(T.canon_idx(plain_a)))[0]:
                    ctx.holds('R2.discard_after', '%s:%s' % (after[0][0]['where'], name.replace('hep::', '')),
                              'calls skipped after the share = N - before(r) - sub(r) = N - before(r+1) (unclamped form)')
                else:
                    check_equal(ctx, 'R2.discard_after', '%s:%s' % (after[0][0]['where'], name.replace('hep::', '')),
                                'calls skipped after the share (argument order calls, sub_calls, rank, world)',
                                na[2], F.split_after(N, F.split_sub_calls(N, r, W), r, W))
            ctx.guard('R1.sub_calls', fsite(d), drv)
    ctx.count('mpi driver kernel call sites', nsites, 6)
    # no share, call count or stream position passes through a narrower integer type (they are
    # products of size_t quantities that exceed 2^31 in long runs)
    nn = 0
    for name in ('hep::discard_before', 'hep::discard_after', 'hep::random_number_usage') + tuple(MPI_DRIVERS):
        for f in instances(p, name):
            nn += 1

            def rn(f=f, name=name):
                s, ex = summarise(p, f, opaque=(DRV_OPAQUE if name in MPI_DRIVERS else ()))
                nar = [e for e, l in flat_effects(s.effects) if e['kind'] == 'narrow']
                # a remainder modulo the number of ranks (an `int` by the MPI interface) fits into an int
                nar = [e for e in nar if not (isinstance(e['operand'], tuple) and e['operand'][0] == 'imod' and
                                              e['operand'][2] == sym('size()') and
                                              (e.get('to') or '').replace('unsigned ', '') in ('int', 'long', 'long long'))]
                if nar:
                    ctx.violation('R5.no_narrowing', '%s:%s' % (nar[0]['where'], name.replace('hep::', '')),
                                  'a call count / stream position is converted from %s to %s: values beyond the '
                                  'narrower range (2^31 calls) are truncated and the shares no longer tile the '
                                  'stream' % (nar[0]['frm'], nar[0]['to']),
                                  {'value': T.pretty(nar[0]['operand'])[:200]})
                else:
                    ctx.holds('R5.no_narrowing', fsite(f), 'no integer narrowing of counts or positions')
            ctx.guard('R5', fsite(f), rn)
    ctx.count('functions checked for integer narrowing', nn, 9)
    # shared with C04: the per-call usage factor must be what the kernel really draws per call, and
    # rank / size must come from the communicator that was passed in (otherwise the shares do not tile)
    from .common import share
    share(ctx, 'C04', 'R4/C04.', ['R2.usage', 'R8.', 'R1.generator_sequence'])
    # the usage predictor must agree with what generate_canonical consumes (shared with C10)
    share(ctx, 'C10', 'R6/C10.', ['R3.', 'R1.'])

