"""C03 - resuming from a checkpoint is indistinguishable from never stopping."""
from .. import terms as T
from .. import sergram
from ..terms import sym, add, mul, sub, ZERO, ONE, fld, sel
from .common import *
from .common import Proxy, share
from .C12 import DRV_OPAQUE, CB_OPAQUE

STATE_GETTER = {'hep::plain': None, 'hep::vegas': 'hep::vegas_chkpt::pdf',
                'hep::multi_channel': 'hep::multi_channel_chkpt::channel_weights',
                'hep::mpi_plain': None, 'hep::mpi_vegas': 'hep::vegas_chkpt::pdf',
                'hep::mpi_multi_channel': 'hep::multi_channel_chkpt::channel_weights'}
STATE_VAR = {'hep::mpi_vegas': 'pdf', 'hep::mpi_multi_channel': 'weights'}


def atoms_of(t):
    out = set()
    for s_ in T.subterms(t):
        if isinstance(s_, tuple) and s_ and s_[0] in ('sym', 'pre', 'havoc', 'hout', 'hcall', 'hmut', 'ext', 'ucall',
                                                     'uout', 'rand', 'undef', 'input', 'mres'):
            out.add(s_)
    return out


def check(ctx):
    p = ctx.prog
    no_use_after_move(ctx, 'move.no_use_after_move', ['hep::plain', 'hep::vegas', 'hep::multi_channel', 'hep::mpi_plain', 'hep::mpi_vegas', 'hep::mpi_multi_channel'] + ['hep::chkpt_with_rng::add'], opaque=DRV_OPAQUE, minimum=6)
    # calls through base-class references reach the derived implementation
    no_hiding_in_hierarchy(ctx, 'dyn.overrides_are_virtual')
    # the callbacks receive the whole checkpoint (no slicing copy)
    by_reference_parameters(ctx, 'dyn.no_slicing', ['hep::callback::operator()', 'hep::mpi_callback::operator()'], 3)
    # no state survives from one call to the next in a function-local static
    no_static_state(ctx, 'state.no_static_locals')
    # no constructor of the classes this property computes with leaves a member indeterminate
    members_initialised(ctx, 'init.members', ['hep::chkpt', 'hep::chkpt_with_rng', 'hep::plain_chkpt', 'hep::vegas_chkpt', 'hep::multi_channel_chkpt'], 8)
    ctx.assume('libm (pow, log) and the stream operators of the engines are deterministic functions '
               'of their inputs (bit-reproducible between the interrupted and the resumed process)')
    # ---------------------------------------------------------------- R1 drivers
    nd = 0
    for name in SERIAL_DRIVERS + MPI_DRIVERS:
        for d in instances(p, name):
            ctx.analysed(d)
            nd += 1

            def r1(d=d, name=name):
                s, ex = summarise(p, d, opaque=DRV_OPAQUE)
                base = name.replace('hep::', '')
                kern = KERNEL_OF[name]
                effs = list(flat_effects(s.effects))
                kc = [(e, l) for e, l in effs if e['kind'] == 'hcall' and e['name'] == kern]
                if len(kc) != 1 or len(kc[0][1]) != 1:
                    raise AnalysisBroken('driver shape not recognised')
                ke, loops = kc[0]
                ls = s.loops[loops[0]['loop']]
                w = '%s:%s' % (ke['where'], base)
                if ls.lo is None or ls.hi is None:
                    raise AnalysisBroken('%s: the iteration loop is not a counting loop this analysis '
                                         'recognises' % w)
                args = ke['args']
                # generator: the local `generator`, initialised from chkpt.generator(), advanced only
                # by the kernel (and discard() in the MPI drivers)
                gen = args[-1]
                gu = upd_by_pre(ls, gen)
                ok = gu is not None and gen == gu['pre'] and isinstance(gu['init'], tuple) and \
                    gu['init'][0] == 'hcall' and gu['init'][1] == 'hep::chkpt_with_rng::generator'
                if ok:
                    ctx.holds('R1.generator_from_chkpt', w, 'the kernel samples with the generator obtained '
                              'from chkpt.generator() and advanced only by previous iterations')
                else:
                    ctx.violation('R1.generator_from_chkpt', w, 'the generator of an iteration does not come '
                                  'from the checkpoint', {'generator': T.pretty(gen)[:200],
                                                          'initialised_from': T.pretty(gu['init'])[:200] if gu else None})
                # the generator stored in the checkpoint is the live generator after the iteration
                ad = [e for e, l in effs if e['kind'] == 'hcall' and e['name'] == 'hep::chkpt_with_rng::add']
                if len(ad) == 1 and gu is not None and ad[0]['args'][1] == gu['next']:
                    ctx.holds('R1.generator_stored', '%s:%s' % (ad[0]['where'], base), 'chkpt.add stores the '
                              'generator exactly as the next iteration of an uninterrupted run would use it')
                else:
                    ctx.violation('R1.generator_stored', '%s:%s' % (ad[0]['where'] if ad else ke['where'], base),
                                  'the generator stored by chkpt.add is not the state the next iteration of '
                                  'the uninterrupted run continues with: a resumed run diverges',
                                  {'stored': T.pretty(ad[0]['args'][1])[:200] if ad else None,
                                   'live': T.pretty(gu['next'])[:200] if gu else None})
                # number of calls
                calls = args[1]
                allowed_calls = {sel(calls_list_term(d), ls.idx), sym('size()'), sym('rank()')}
                bad = [a for a in atoms_of(calls) if a not in allowed_calls and a != calls_list_term(d) and a != ls.idx]
                if bad:
                    ctx.violation('R1.calls_from_list', w, 'the number of calls of an iteration depends on '
                                  'more than iteration_calls[k] (and the MPI rank/size)',
                                  {'depends_on': [T.pretty(a)[:120] for a in bad]})
                else:
                    ctx.holds('R1.calls_from_list', w, 'calls of iteration k depend only on iteration_calls[k]'
                              + (' and the MPI rank/size' if 'mpi' in name else ''))
                # adaptive state
                getter = STATE_GETTER[name]
                if getter is not None:
                    st = args[2]
                    if 'mpi' not in name:
                        ok = isinstance(st, tuple) and st[0] == 'hcall' and st[1] == getter and \
                            st[2] == ('pre', ls.id, 'chkpt')
                        if ok:
                            ctx.holds('R1.state_from_chkpt', w, 'grid / weights of iteration k are '
                                      'recomputed from the checkpoint at the start of the iteration')
                        else:
                            ctx.violation('R1.state_from_chkpt', w, 'the adaptive state handed to the kernel '
                                          'is not obtained from the checkpoint in this iteration: a resumed '
                                          'run would sample with a different state',
                                          {'state': T.pretty(st)[:300]})
                    else:
                        su = upd_by_pre(ls, st)
                        ok = su is not None and st == su['pre'] and isinstance(su['init'], tuple) and \
                            su['init'][0] == 'hcall' and su['init'][1] == getter
                        if ok:
                            ctx.holds('R1.state_from_chkpt', w, 'MPI driver: local state initialised from '
                                      'the checkpoint (its per-iteration refinement is decided equal to '
                                      'the checkpoint\'s by C19/R4)')
                        else:
                            ctx.violation('R1.state_from_chkpt', w, 'MPI driver: the local adaptive state is '
                                          'not initialised from the checkpoint',
                                          {'state': T.pretty(st)[:300]})
            ctx.guard('R1', fsite(d), r1)
    ctx.count('integrator drivers', nd, 12)
    # the checkpoint handed to the callback (and hence written to the file) is the extended one
    from . import C12
    for name in SERIAL_DRIVERS + MPI_DRIVERS:
        for d in instances(p, name):
            ctx.guard('R4/driver', fsite(d), lambda d=d, name=name: C12.driver_shape(Proxy(ctx, 'R4/'), d, name))

    # ---------------------------------------------------------------- R2 no hidden state
    def r2():
        bad = []
        for g in p.globals:
            if not g['const']:
                bad.append('%s (%s)' % (g['name'], g['type']))
        nstat = 0
        for f in p.funcs.values():
            if f.body is None or f.is_pattern:
                continue
            for n in f.body.walk():
                if n.op == 'decl' and n.a.get('static'):
                    t = (n.a.get('type') or '').strip()
                    if not t.startswith('const'):
                        bad.append('static %s in %s at %s' % (n.a.get('name'), strip_targs(f.qualname), n.where()))
                    nstat += 1
        if bad:
            ctx.violation('R2.no_hidden_state', 'include/hep', 'mutable state that is not part of the '
                          'checkpoint survives between iterations: ' + '; '.join(bad[:4]), {'all': bad})
        else:
            ctx.holds('R2.no_hidden_state', 'include/hep', 'no mutable namespace-scope or function-static '
                      'object anywhere in hep:: (%d function bodies scanned)'
                      % sum(1 for f in p.funcs.values() if f.body is not None))
    ctx.guard('R2', 'include/hep', r2)

    # ---------------------------------------------------------------- R3 format (shared with C05)
    from . import C05
    share(ctx, 'C05', 'R3/', None)

    # ---------------------------------------------------------------- R4 the callback writes that checkpoint
    ncb = 0
    for f in instances(p, 'hep::callback::operator()'):
        ctx.analysed(f)
        ncb += 1

        def r4(f=f):
            s, ex = summarise(p, f, opaque=CB_OPAQUE)
            where = fsite(f)
            ser = [e for e, l in flat_effects(s.effects) if e['kind'] in ('hcall', 'vcall')
                   and e['name'].endswith('::serialize')]
            opens = [e for e, l in flat_effects(s.effects) if e['kind'] == 'open']
            if len(ser) != 1 or ser[0]['obj'] != sym('chkpt'):
                ctx.violation('R4.writes_this_checkpoint', where, 'the file is not produced by serialize() '
                              'of the checkpoint handed to the callback', {'serialize_calls': len(ser)})
                return
            mode = fld(sym('this'), 'mode_')
            pc = T.conj(ser[0]['pc'])
            want = T.lor(('==', mode, ('enum', 'silent_and_write_chkpt')),
                         ('==', mode, ('enum', 'verbose_and_write_chkpt')))
            by_mode = {m_: under_mode(pc, mode, m_) for m_ in CALLBACK_MODES}
            ok_modes = all(by_mode[m_] == (T.TRUE if m_.endswith('write_chkpt') else T.FALSE) for m_ in CALLBACK_MODES)
            if pc == want or ok_modes:
                ctx.holds('R4.writes_this_checkpoint', where, 'in both *_write_chkpt modes the checkpoint '
                          'just extended is serialised after every iteration')
            else:
                ctx.violation('R4.writes_this_checkpoint', where, 'the checkpoint is not written in exactly '
                              'the two write modes', {'condition': T.pretty(pc)[:300]})
        ctx.guard('R4', fsite(f), r4)
    ctx.count('callback::operator() instantiations', ncb, 3)

    # the stop decision is a function of the checkpoint handed in (a resumed run has a new callback)
    share(ctx, 'C12', 'R4/C12.', ['R3.decision_from_checkpoint_only', 'R3.all_results', 'R2.', 'R3.positive_target'])
    share(ctx, 'C20', 'R4/C20.', ['R3.reporting_effects_only'])
    from . import C15, C18
    share(ctx, 'C15', 'R1/C15.', ['R1.generator_last', 'inv.add_appends'])
    share(ctx, 'C18', 'R4/C18.', ['R1.'])

    # ---------------------------------------------------------------- R5 output depends on members only
    for base in sergram.SERIALISED:
        def r5(base=base):
            g = sergram.extract(p, base)
            bad = []

            def walk(items):
                for it in items:
                    if it.k == 'field' and it.label is None:
                        bad.append('%s at %s' % (T.pretty(it.term)[:100], it.where))
                    elif it.k == 'field':
                        if T.contains(it.term, lambda t: isinstance(t, tuple) and t and t[0] in ('undef', 'ext', 'addr', 'ptr')):
                            bad.append('%s at %s' % (T.pretty(it.term)[:100], it.where))
                    elif it.k == 'loop':
                        walk(it.body)
            walk(g.writer)
            if bad:
                ctx.violation('R5.output_from_members', fsite(g.wfunc), 'serialize() writes something that '
                              'is not a serialised member: ' + bad[0], {'all': bad})
            else:
                ctx.holds('R5.output_from_members', fsite(g.wfunc), 'every written token is a member that '
                          'the reader restores (or a size of one)')
        ctx.guard('R5', base, r5)
