"""C19 - each iteration samples with the state derived from the previous one."""
from .. import terms as T
from ..terms import sym, add, mul, sub, ZERO, ONE, fld, sel
from .common import *
from .C02 import ACC_OPAQUE
from .C12 import DRV_OPAQUE

TH = sym('this')


def last(v):
    return sel(v, sub(T.size(v), ONE))


def _by_case(s, c):
    """the returned value under `c` and under `not c`, whatever the spelling (early return, if/else,
    conditional expression, inverted test)"""
    a, b = c[1], c[2]
    def under(v):
        m = {('==', a, b): T.TRUE if v else T.FALSE, ('==', b, a): T.TRUE if v else T.FALSE,
             ('!=', a, b): T.FALSE if v else T.TRUE, ('!=', b, a): T.FALSE if v else T.TRUE}
        if T.is_num(b):
            # size() > 0 / size() >= 1 for `!= 0`
            m[('<', b, a)] = T.FALSE if v else T.TRUE
            m[('>', a, b)] = T.FALSE if v else T.TRUE
        return T.subst(s.ret, m)
    return {c: under(True), T.lnot(c): under(False)}


def check(ctx):
    p = ctx.prog
    # no state survives from one call to the next in a function-local static
    no_static_state(ctx, 'state.no_static_locals')
    # all arithmetic behind this property happens in the numeric type T of the instantiation
    single_precision(ctx, 'prec.single_type', ['hep::vegas_chkpt::', 'hep::multi_channel_chkpt::', 'hep::vegas_refine_pdf', 'hep::multi_channel_refine_weights'], 1)
    # ---------------------------------------------------------------- R1 results record the state used
    for f in instances(p, 'hep::vegas_iteration'):
        ctx.analysed(f)

        def r1v(f=f):
            s, ex = summarise(p, f, opaque=ACC_OPAQUE | {'hep::vegas_icdf'})
            where = fsite(f)
            pdf = sym('pdf')
            icdf = [e for e, l in flat_effects(s.effects) if e['kind'] == 'hcall' and e['name'] == 'hep::vegas_icdf']
            ok1 = len(icdf) == 1 and icdf[0]['args'][0] == pdf
            ok2 = fld(s.ret, 'pdf_') == pdf
            if ok1 and ok2:
                ctx.holds('R1.result_records_state', where, 'the grid the points are drawn with is the '
                          'grid stored in the returned result (same parameter object)')
            else:
                ctx.violation('R1.result_records_state', where, 'the result does not record the grid its '
                              'points were drawn with', {'stored': T.pretty(fld(s.ret, 'pdf_'))[:200],
                                                         'sampled_with': T.pretty(icdf[0]['args'][0])[:200] if icdf else None})
        ctx.guard('R1', fsite(f), r1v)
    for f in instances(p, 'hep::multi_channel_iteration'):
        ctx.analysed(f)

        def r1m(f=f):
            s, ex = summarise(p, f, opaque=ACC_OPAQUE)
            where = fsite(f)
            cw = sym('channel_weights')
            inv = [e for e, l in flat_effects(s.effects) if e['kind'] == 'hcall' and e['name'] == 'hep::accumulator::invoke']
            if len(inv) != 1:
                raise AnalysisBroken('invoke not found')
            pt = inv[0]['args'][1]
            ref = fld(pt, 'channel_weights_')
            ok_pt = isinstance(ref, tuple) and ref[0] == 'ref' and ex.read(s.state, ref[1]) == cw
            sel_loops = [l for l in s.loops if 'discrete_distribution' in l.func.qualname]
            if len(sel_loops) != 1 or not sel_loops[0].updates:
                raise AnalysisBroken('construction of the channel selector not recognised')
            ok_sel = list(sel_loops[0].updates.values())[0]['init'] == ('vpsum', cw, ZERO, T.size(cw), ZERO)
            ok_ret = fld(s.ret, 'channel_weights_') == cw
            if ok_pt and ok_sel and ok_ret:
                ctx.holds('R1.result_records_state', where, 'channel selector, point weight and the returned '
                          'result all use the same channel_weights parameter')
            else:
                ctx.violation('R1.result_records_state', where, 'the result does not record the channel '
                              'weights its points were drawn with',
                              {'point': ok_pt, 'selector': ok_sel, 'stored': T.pretty(fld(s.ret, 'channel_weights_'))[:200]})
        ctx.guard('R1', fsite(f), r1m)

    # ---------------------------------------------------------------- R2 checkpoint accessors
    f = p.one('hep::vegas_chkpt::pdf')
    ctx.analysed(f)

    def r2v():
        s, ex = summarise(p, f, opaque={'hep::vegas_refine_pdf'})
        res = fld(TH, 'results_')
        want = {
            ('==', T.size(res), ZERO): sel(fld(TH, 'pdf_'), ZERO),
            T.lnot(('==', T.size(res), ZERO)): ('hcall', 'hep::vegas_refine_pdf', fld(last(res), 'pdf_'),
                                                fld(TH, 'alpha_'), fld(last(res), 'adjustment_data_')),
        }
        got = _by_case(s, ('==', T.size(res), ZERO))
        if got == want:
            ctx.holds('R2.next_grid', fsite(f), 'pdf() = first grid without results, else '
                      'vegas_refine_pdf(last.pdf, alpha_, last.adjustment_data)')
        else:
            ctx.violation('R2.next_grid', fsite(f), 'pdf() is not the refinement of the LAST result under '
                          'the checkpoint\'s alpha (or the first grid without results)',
                          {'returns': {T.pretty(k)[:80]: T.pretty(v)[:300] for k, v in got.items()}})
        callee = p.one('hep::vegas_refine_pdf')
        if [q.name for q in callee.params] != ['pdf', 'alpha', 'data']:
            raise AnalysisBroken('parameter roles of vegas_refine_pdf changed: %s' % [q.name for q in callee.params])
    ctx.guard('R2', fsite(f), r2v)
    g = p.one('hep::multi_channel_chkpt::channel_weights')
    ctx.analysed(g)

    def r2m():
        s, ex = summarise(p, g, opaque={'hep::multi_channel_refine_weights'})
        res = fld(TH, 'results_')
        want = {
            ('==', T.size(res), ZERO): fld(TH, 'first_channel_weights_'),
            T.lnot(('==', T.size(res), ZERO)): ('hcall', 'hep::multi_channel_refine_weights',
                                                fld(last(res), 'channel_weights_'), fld(last(res), 'adjustment_data_'),
                                                fld(TH, 'min_weight_'), fld(TH, 'beta_')),
        }
        got = _by_case(s, ('==', T.size(res), ZERO))
        callee = p.one('hep::multi_channel_refine_weights')
        roles = [q.name for q in callee.params]
        if roles != ['weights', 'adjustment_data', 'minimum_weight', 'beta']:
            raise AnalysisBroken('parameter roles of multi_channel_refine_weights changed: %s' % roles)
        if got == want:
            ctx.holds('R2.next_weights', fsite(g), 'channel_weights() = first weights without results, else '
                      'refine(last.weights, last.adjustment_data, min_weight_ -> minimum_weight, beta_ -> beta)')
        else:
            ctx.violation('R2.next_weights', fsite(g), 'channel_weights() is not the refinement of the LAST '
                          'result with (min_weight_, beta_) in their slots',
                          {'returns': {T.pretty(k)[:80]: T.pretty(v)[:400] for k, v in got.items()}})
    ctx.guard('R2', fsite(g), r2m)
    # parameter -> member binding of the adaptation parameters
    for base, binds in (('hep::vegas_chkpt', {'alpha': 'alpha_'}),
                        ('hep::multi_channel_chkpt', {'beta': 'beta_', 'min_weight': 'min_weight_'})):
        short = base.split('::')[-1]
        for c in [c for c in instances(p, base + '::' + short) if not c.is_implicit]:
            names = [q.name for q in c.params]
            if not all(k in names for k in binds):
                continue

            def rb(c=c, binds=binds):
                s, ex = summarise(p, c, opaque={'hep::multi_channel_refine_weights'})
                bad = [k for k, m in binds.items() if fld(s.this, m) != sym(k)]
                if bad:
                    ctx.violation('R2.parameters_stored', fsite(c), 'constructor does not store %s in the '
                                  'member of the same role' % bad)
                else:
                    ctx.holds('R2.parameters_stored', fsite(c), 'adaptation parameters stored in the members '
                              'of the same role')
            ctx.guard('R2.parameters_stored', fsite(c), rb)
    for getter, member, base in (('alpha', 'alpha_', 'hep::vegas_chkpt'), ('beta', 'beta_', 'hep::multi_channel_chkpt'),
                                 ('min_weight', 'min_weight_', 'hep::multi_channel_chkpt')):
        gf = p.one('%s::%s' % (base, getter))

        def rg(gf=gf, member=member, getter=getter):
            s, ex = summarise(p, gf)
            if s.ret == fld(TH, member):
                ctx.holds('R2.getters', fsite(gf), '%s() returns %s' % (getter, member))
            else:
                ctx.violation('R2.getters', fsite(gf), '%s() does not return %s' % (getter, member))
        ctx.guard('R2.getters', fsite(gf), rg)
    # the factories hand every argument to the member of the same role: a checkpoint made with
    # (min_weight, beta) / (bins, alpha) / (pdf, alpha) adapts with exactly these parameters
    nfac = 0
    for nm, binds in (('hep::make_vegas_chkpt', {'alpha': 'alpha_', 'bins': 'bins_'}),
                      ('hep::make_multi_channel_chkpt', {'beta': 'beta_', 'min_weight': 'min_weight_'})):
        for f in [f for f in instances(p, nm)
                  if not (len(f.params) == 1 and 'istream' in (f.params[0].type or ''))]:
            nfac += 1

            def rfac(f=f, nm=nm, binds=binds):
                s, ex = summarise(p, f, opaque={'hep::multi_channel_refine_weights'})
                names = [q.name for q in f.params]
                ret = s.ret
                bad = []
                if isinstance(ret, tuple) and ret and ret[0] == 'new':
                    # constructor not inlined: the arguments must be (generator, then the parameters in the order
                    # of the checkpoint constructor that takes them)
                    base = 'hep::' + nm.split('make_')[1]
                    cands = [c for c in instances(p, base + '::' + base.split('::')[-1]) if not c.is_implicit
                             and [q.name for q in c.params] == [n_ for n_ in names if n_ in [q.name for q in c.params]]
                             and len(c.params) == len(ret) - 3]
                    args = list(ret[3:])
                    if not cands or args != [sym(q.name) for q in cands[0].params]:
                        bad.append('arguments %s' % [T.pretty(a)[:40] for a in ret[2:]])
                else:
                    for k, m in binds.items():
                        if k in names and fld(ret, m) != sym(k):
                            bad.append('%s <- %s' % (m, T.pretty(fld(ret, m))[:60]))
                if bad:
                    ctx.violation('R2.factory_forwards', fsite(f), 'the factory does not hand its adaptation '
                                  'parameters to the members of the same role: %s' % '; '.join(bad),
                                  {'parameters': names})
                else:
                    ctx.holds('R2.factory_forwards', fsite(f), 'every adaptation parameter reaches the member of '
                              'the same role')
            ctx.guard('R2.factory_forwards', fsite(f), rfac)
    ctx.count('checkpoint factories', nfac, 4)
    # first state given by the user is stored as is
    for c in [c for c in instances(p, 'hep::vegas_chkpt::vegas_chkpt') if not c.is_implicit
              and len(c.params) == 2 and 'vegas_pdf' in (c.params[0].type or '')]:
        def rf(c=c):
            s, ex = summarise(p, c)
            v = fld(s.this, 'pdf_')
            pg = sym([q.name for q in c.params if 'vegas_pdf' in (q.type or '')][0])
            # one-element vector holding the user grid, however it is built ({pdf}, push_back, (1, pdf))
            one = T.size(v) == T.ONE and T.sel(v, T.ZERO) == pg
            if v == ('vlist', pg) or one:
                ctx.holds('R5.user_grid', fsite(c), 'the user supplied grid is the first grid')
            else:
                ctx.violation('R5.user_grid', fsite(c), 'the user supplied grid is not stored as the first grid',
                              {'pdf_': T.pretty(v)[:200]})
        ctx.guard('R5.user_grid', fsite(c), rf)

    # ---------------------------------------------------------------- R5 first state (shared rules)
    from . import C08, C15, C07
    from .common import Proxy, share
    share(ctx, 'C08', 'R5/C08.', ['R5.'])
    share(ctx, 'C15', 'R5/C15.', ['R3.', 'R4.first_state_kept'])
    share(ctx, 'C07', 'R5/C07.', ['R3.uniform'])

    # ---------------------------------------------------------------- R3/R4 drivers
    opq = set(DRV_OPAQUE)
    cfg = {
        'hep::mpi_vegas': dict(var='pdf', refine='hep::vegas_refine_pdf', state_field='pdf_',
                               want=lambda pre, ck, res: [pre, fld(ck, 'alpha_'), fld(res, 'adjustment_data_')]),
        'hep::mpi_multi_channel': dict(var='weights', refine='hep::multi_channel_refine_weights',
                                       state_field='channel_weights_',
                                       want=lambda pre, ck, res: [pre, fld(res, 'adjustment_data_'),
                                                                  fld(ck, 'min_weight_'), fld(ck, 'beta_')]),
    }
    for name, c in cfg.items():
        for d in instances(p, name):
            ctx.analysed(d)

            def r4(d=d, name=name, c=c):
                s, ex = summarise(p, d, opaque=opq)
                base = name.replace('hep::', '')
                kern = KERNEL_OF[name]
                effs = list(flat_effects(s.effects))
                kc = [(e, l) for e, l in effs if e['kind'] == 'hcall' and e['name'] == kern]
                rf = [(e, l) for e, l in effs if e['kind'] == 'hcall' and e['name'] == c['refine']]
                ar = [(e, l) for e, l in effs if e['kind'] == 'hcall' and e['name'] == 'hep::allreduce_result']
                if len(kc) != 1 or len(rf) != 1 or len(ar) != 1:
                    ctx.violation('R4.mpi_refinement', fsite(d), 'the MPI driver does not refine its local '
                                  'state exactly once per iteration (%d refinements)' % len(rf))
                    return
                ls = s.loops[kc[0][1][0]['loop']]
                pre = kc[0][0]['args'][2]
                if not (isinstance(pre, tuple) and pre and pre[0] == 'pre' and pre[1] == ls.id):
                    ctx.violation('R4.mpi_state_chain', fsite(d), 'the kernel is not handed the driver\'s local '
                                  'state variable', {'state': T.pretty(pre)[:200]})
                    return
                w = '%s:%s' % (rf[0][0]['where'], base)
                ad0 = [e for e, l in effs if e['kind'] == 'hcall' and e['name'] == 'hep::chkpt_with_rng::add']
                cu = upd_by_pre(ls, ad0[0]['obj']) if ad0 else None
                if cu is None:
                    raise AnalysisBroken('checkpoint variable of the MPI driver not recognised')
                ck = cu['next']
                ad = [e for e, l in effs if e['kind'] == 'hcall' and e['name'] == 'hep::chkpt_with_rng::add']
                if len(ad) != 1 or not (isinstance(ck, tuple) and ck[0] == 'hmut' and ck[1] == 'hep::chkpt_with_rng::add'):
                    raise AnalysisBroken('checkpoint after add not recognised')
                res = ad[0]['args'][0]
                # the stored result records the state that was sampled with, and the reduced data
                buf = fld(res, 'adjustment_data_')
                if not (isinstance(buf, tuple) and buf and buf[0] == 'hout' and buf[1] == 'hep::allreduce_result'
                        and buf[2] == allreduce_roles(p)['out'][1]):
                    buf = None
                ok_state = fld(res, c['state_field']) == pre and kc[0][0]['args'][2] == pre
                ok_data = buf is not None and fld(res, 'adjustment_data_') == buf
                if ok_state and ok_data:
                    ctx.holds('R4.mpi_result', '%s:%s' % (kc[0][0]['where'], base), 'the result added to the '
                              'checkpoint records the local state sampled with and the REDUCED adjustment data')
                else:
                    ctx.violation('R4.mpi_result', '%s:%s' % (kc[0][0]['where'], base), 'the stored result does '
                                  'not record the sampled state / the reduced adjustment data',
                                  {'state': T.pretty(fld(res, c['state_field']))[:200],
                                   'data': T.pretty(fld(res, 'adjustment_data_'))[:200]})
                want = c['want'](pre, ck, res)
                got = rf[0][0]['args']
                if got == want:
                    ctx.holds('R4.mpi_refinement', w, 'local refinement = the checkpoint\'s own rule: refine('
                              'state of the result just added, its reduced data, the checkpoint\'s parameters)')
                else:
                    ctx.violation('R4.mpi_refinement', w, 'the MPI-local refinement differs from what '
                                  'chkpt.%s would compute from the result just added'
                                  % ('pdf()' if c['var'] == 'pdf' else 'channel_weights()'),
                                  {'got': [T.pretty(a)[:160] for a in got], 'want': [T.pretty(a)[:160] for a in want]})
                u = upd_by_pre(ls, pre)
                nxt = ('hcall', c['refine']) + tuple(got)
                # the refinement itself must be unconditional: every rank refines after every iteration
                # that is followed by another one (a condition on rank-local data lets the ranks diverge)
                def is_cb(c_):
                    a_ = c_[1] if isinstance(c_, tuple) and c_ and c_[0] == 'not' else c_
                    return isinstance(a_, tuple) and a_ and a_[0] == 'truth' and isinstance(a_[1], tuple) and \
                        a_[1][0] in ('hcall', 'ucall') and 'callback' in str(a_[1][1])
                rpc = [c_ for c_ in rf[0][0]['pc'] if not is_cb(c_)]
                if u['next'] == nxt and not rpc:
                    ctx.holds('R4.mpi_state_chain', w, 'the refined state is what the next iteration samples '
                              'with, on every rank and after every iteration')
                elif u['next'] == nxt or rpc:
                    ctx.violation('R4.mpi_state_chain', w, 'the local refinement is conditional (%s): a rank for '
                                  'which the condition fails samples the next iteration with a state that is '
                                  'not the refinement of the result just stored, and the ranks disagree'
                                  % T.pretty(T.conj(rpc))[:200], {'next': T.pretty(u['next'])[:300]})
                else:
                    ctx.violation('R4.mpi_state_chain', w, 'the refined state is not carried to the next iteration',
                                  {'next': T.pretty(u['next'])[:300]})
            ctx.guard('R4', fsite(d), r4)
    # serial drivers: shared with C03/R1 (state recomputed from the checkpoint each iteration)
    from . import C03
    for name in ('hep::vegas', 'hep::multi_channel'):
        for d in instances(p, name):
            def r3(d=d, name=name):
                s, ex = summarise(p, d, opaque=DRV_OPAQUE)
                kern = KERNEL_OF[name]
                kc = [(e, l) for e, l in flat_effects(s.effects) if e['kind'] == 'hcall' and e['name'] == kern]
                ls = s.loops[kc[0][1][0]['loop']]
                st = kc[0][0]['args'][2]
                getter = C03.STATE_GETTER[name]
                n_get = len([1 for e, l in flat_effects(s.effects) if e['kind'] == 'hcall' and e['name'] == getter and l])
                if isinstance(st, tuple) and st[:3] == ('hcall', getter, ('pre', ls.id, 'chkpt')) and n_get == 1:
                    ctx.holds('R3.read_once_per_iteration', '%s:%s' % (kc[0][0]['where'], name.replace('hep::', '')),
                              'the state is read from the checkpoint once per iteration, after the previous '
                              'add, and passed unmodified to the kernel')
                else:
                    ctx.violation('R3.read_once_per_iteration', '%s:%s' % (kc[0][0]['where'], name.replace('hep::', '')),
                                  'the serial driver does not pass chkpt\'s state of this iteration to the kernel',
                                  {'state': T.pretty(st)[:300], 'reads_per_iteration': n_get})
            ctx.guard('R3', fsite(d), r3)
    # a reloaded checkpoint continues with the state that was written: the reader stores the values
    # it read, unmodified (shared with C05)
    share(ctx, 'C05', 'R7/C05.', ['vii.', 'i.sequence', 'i.loop_counts', 'i.element_order', 'iii.'])
    # the reduced data reach the stored result whatever order the compiler evaluates arguments in (shared with C04)
    share(ctx, 'C04', 'R8/C04.', ['R6.evaluation_order'])
    # the point of every call is generated by the channel whose interval of the recorded weights contains the number drawn
    share(ctx, 'C09', 'R9/C09.', ['R1.interval', 'R4.channel_from_selector'])

