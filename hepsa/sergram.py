"""E4: writer and reader grammars of the text checkpoint format, extracted from the effect lists
of `serialize(std::ostream&)` and of the `std::istream&` constructors, and their agreement."""
import re

from . import ir, symex, algebra
from . import terms as T
from .frontend import AnalysisBroken, strip_targs

SERIALISED = ['hep::mc_result', 'hep::plain_result', 'hep::distribution_parameters',
              'hep::distribution_result', 'hep::vegas_pdf', 'hep::vegas_result',
              'hep::multi_channel_result', 'hep::chkpt', 'hep::chkpt_with_rng', 'hep::vegas_chkpt',
              'hep::multi_channel_chkpt']
RESULT_NAMES = set(x + '::result_name' for x in SERIALISED)


class Item:
    def __init__(self, k, **kw):
        self.k = k
        self.__dict__.update(kw)

    def __repr__(self):
        d = dict(self.__dict__)
        d.pop('k')
        d.pop('body', None)
        d.pop('eff', None)
        short = {}
        for a, b in d.items():
            short[a] = T.pretty(b)[:70] if isinstance(b, tuple) else b
        return '%s%s' % (self.k, short)


def is_ws_text(s):
    return isinstance(s, str) and len(s) > 0 and any(c in ' \n\t\r' for c in s)


def label_of(term):
    """member label of a written term: this.f -> f ; this.f[i] -> f[] ; |this.f| -> #f"""
    if isinstance(term, tuple) and term:
        if term[0] == 'fld' and term[1] == T.sym('this'):
            return term[2]
        if term[0] == 'sel':
            b = label_of(term[1])
            return (b + '[]') if b else None
        if term[0] == 'size':
            b = label_of(term[1])
            return ('#' + b) if b else None
    return None


def writer_items(effs):
    out = []
    for e in effs:
        k = e['kind']
        if k == 'loop':
            out.append(Item('loop', lo=e['lo'], hi=e['hi'], idx=e['idx'], body=writer_items(e['body']),
                            where=e['where'], pc=tuple(e['pc'])))
        elif k == 'out':
            it = e['item']
            pc = tuple(e['pc'])
            if isinstance(it, tuple) and it and it[0] in ('chr', 'str'):
                out.append(Item('lit', text=it[1], ws=is_ws_text(it[1]), where=e['where'], pc=pc))
            elif isinstance(it, tuple) and it and it[0] == 'fref' and it[1] in ('scientific', 'fixed', 'hexfloat', 'defaultfloat'):
                out.append(Item('fmt', what=it[1], arg=None, where=e['where'], pc=pc))
            elif isinstance(it, tuple) and it and it[0] == 'manip' and it[1] == 'setprecision':
                out.append(Item('fmt', what='precision', arg=it[2] if len(it) > 2 else None,
                                where=e['where'], pc=pc))
            elif isinstance(it, tuple) and it and it[0] == 'manip':
                out.append(Item('fmt', what=it[1], arg=None, where=e['where'], pc=pc))
            elif isinstance(it, tuple) and it and it[0] == 'hcall' and str(it[1]) in RESULT_NAMES:
                out.append(Item('lit', text='<result_name>', ws=False, where=e['where'], pc=pc, header=True))
            elif isinstance(it, tuple) and it and it[0] == 'const' and 'numeric_limits' in str(it[1]):
                out.append(Item('lit', text='<digits>', ws=False, where=e['where'], pc=pc, header=True))
            else:
                ty = e.get('ty') or ''
                out.append(Item('field', term=it, label=label_of(it), ctype=ty,
                                isfloat=ir.is_float_type(ty), istext='basic_string' in ty or ty == 'std::string',
                                where=e['where'], pc=pc))
        elif k in ('hcall', 'vcall') and e['name'].endswith('::serialize'):
            out.append(Item('sub', cls=e['name'][:-len('::serialize')], obj=e.get('obj'),
                            where=e['where'], pc=tuple(e['pc'])))
        elif k == 'hcall' and e['name'] in RESULT_NAMES:
            continue
        elif k in ('assert',):
            continue
        else:
            out.append(Item('other', eff=e, where=e.get('where'), pc=tuple(e['pc'])))
    return out


def reader_items(effs):
    out = []
    for e in effs:
        k = e['kind']
        if k == 'loop':
            out.append(Item('loop', lo=e['lo'], hi=e['hi'], idx=e['idx'], body=reader_items(e['body']),
                            where=e['where'], pc=tuple(e['pc'])))
        elif k == 'in':
            how = e['how']
            pc = tuple(e['pc'])
            if how == '>>':
                lv = e['target']
                member = None
                if lv is not None and lv[1] == ('this', 'this'):
                    parts = []
                    for s in lv[2]:
                        parts.append(s[1] if s[0] == 'f' else '[]')
                    member = parts[0] + ''.join(x for x in parts[1:] if x == '[]')
                out.append(Item('read', member=member, local=None if member else e.get('label'),
                                ctype=e.get('ty') or '', where=e['where'], pc=pc, lv=lv))
            elif how == 'getline':
                lv = e['target']
                member = lv[2][0][1] if lv is not None and lv[1] == ('this', 'this') and lv[2] else None
                out.append(Item('getline', member=member, where=e['where'], pc=pc))
            elif how == 'manip':
                it = e.get('item')
                nm = it[1] if isinstance(it, tuple) and len(it) > 1 else '?'
                out.append(Item('skipws' if nm == 'ws' else 'inmanip', what=nm, where=e['where'], pc=pc))
            elif how == 'ignore':
                a = e.get('args') or []
                delim = a[1][1] if len(a) > 1 and isinstance(a[1], tuple) and a[1][0] in ('chr', 'str') else None
                out.append(Item('ignore', delim=delim, where=e['where'], pc=pc))
            elif how in ('peek', 'get'):
                out.append(Item(how, where=e['where'], pc=pc))
            else:
                out.append(Item('other', eff=e, where=e['where'], pc=pc))
        elif k == 'hcall' and e['name'].endswith('::ctor'):
            out.append(Item('sub', cls=e['name'][:-len('::ctor')], target=e.get('target'),
                            where=e['where'], pc=tuple(e['pc']), args=e['args'], result=e.get('result')))
        elif k in ('assert',):
            continue
        else:
            out.append(Item('other', eff=e, where=e.get('where'), pc=tuple(e['pc'])))
    return out


class ClassGrammar:
    def __init__(self, base):
        self.base = base
        self.writer = None
        self.reader = None
        self.wfunc = None
        self.rfunc = None
        self.record = None
        self.rthis = None


def extract(prog, base, pick=None):
    """Grammars of one serialised class (first instantiation unless pick selects another)."""
    g = ClassGrammar(base)
    short = base.split('::')[-1]
    ws = [f for f in prog.find(base + '::serialize')]
    rs = [c for c in prog.find(base + '::' + short)
          if len(c.params) == 1 and 'istream' in (c.params[0].type or '')]
    if pick:
        ws = [f for f in ws if pick(f)]
        rs = [f for f in rs if pick(f)]
    if not ws or not rs:
        raise AnalysisBroken('writer/reader pair of %s not found' % base)
    g.wfunc, g.rfunc = ws[0], rs[0]
    g.record = g.wfunc.record
    op = set(x + '::serialize' for x in SERIALISED if x != base) | RESULT_NAMES
    ex = symex.SymEx(prog, opaque=op)
    s = ex.summarise(g.wfunc)
    g.writer = writer_items(s.effects)
    ex2 = symex.SymEx(prog, opaque=set(x for x in SERIALISED if x != base))
    s2 = ex2.summarise(g.rfunc)
    g.reader = reader_items(s2.effects)
    g.rthis = s2.this
    g.rstate = s2
    return g


# ------------------------------------------------------------------------------------------------
# first / last symbol summaries and format state
# ------------------------------------------------------------------------------------------------

def flatten_adjacent(items, grams, out, depth=0):
    """Linearise items into ends: 'ws', 'tok', 'text', expanding loops twice (adjacency across
    iterations) and sub-objects by their own (memoised) linearisation."""
    for it in items:
        if it.k == 'lit':
            out.append(('ws' if it.ws else 'tok', it))
        elif it.k == 'field':
            out.append(('text' if it.istext else 'tok', it))
        elif it.k == 'sub':
            g = grams.get(it.cls)
            if g is None or depth > 6:
                out.append(('tok', it))
            else:
                flatten_adjacent(g.writer, grams, out, depth + 1)
        elif it.k == 'loop':
            flatten_adjacent(it.body, grams, out, depth)
            flatten_adjacent(it.body, grams, out, depth)
        elif it.k == 'fmt':
            continue
        else:
            out.append(('tok', it))


def separator_violations(items, grams):
    """Pairs of consecutive tokens without a whitespace literal in between (both the variant with
    loops executed twice and with loops skipped are examined)."""
    bad = []
    for skip in (False, True):
        seq = []
        _flat(items, grams, seq, skip)
        prev = None
        for kind, it in seq:
            if kind == 'ws':
                prev = None
                continue
            if prev is not None and kind in ('tok',) and prev[0] in ('tok',):
                bad.append((prev[1], it))
            prev = (kind, it)
    # unique by location pair
    seen = set()
    res = []
    for a, b in bad:
        key = (getattr(a, 'where', None), getattr(b, 'where', None))
        if key not in seen:
            seen.add(key)
            res.append((a, b))
    return res


def text_separator_violations(items, grams):
    """A free-text field (read with getline) must be separated from the token written before it by exactly one
    newline: the reader skips to the end of the line of the previous token and takes the next line as the text.
    Two newlines (the previous object ends with one and the container writes another) make the text an empty
    line and shift everything after it.  Examined on the linearised writer, loops executed twice and skipped."""
    bad = []
    for skip in (False, True):
        seq = []
        _flat(items, grams, seq, skip)
        pending = None          # whitespace since the last token, None before the first token
        last_tok = None
        for kind, it in seq:
            if kind == 'ws':
                if pending is not None:
                    pending += str(getattr(it, 'text', ''))
                continue
            if kind == 'text' and last_tok is not None and pending is not None and pending != '\n':
                bad.append((last_tok, it, pending))
            if kind in ('tok', 'text', 'hdr'):
                last_tok = it
                pending = ''
    seen = set()
    res = []
    for a, b, p_ in bad:
        key = (getattr(a, 'where', None), getattr(b, 'where', None))
        if key not in seen:
            seen.add(key)
            res.append((a, b, p_))
    return res


def _flat(items, grams, out, skip_loops, depth=0):
    for it in items:
        if it.k == 'lit':
            if getattr(it, 'header', False):
                out.append(('hdr', it))
            else:
                out.append(('ws' if it.ws else 'hdr', it))
        elif it.k == 'field':
            out.append(('text' if it.istext else 'tok', it))
        elif it.k == 'sub':
            g = grams.get(it.cls)
            if g is None or depth > 6:
                out.append(('tok', it))
            else:
                _flat(g.writer, grams, out, skip_loops, depth + 1)
        elif it.k == 'loop':
            if not skip_loops:
                _flat(it.body, grams, out, skip_loops, depth)
                _flat(it.body, grams, out, skip_loops, depth)
        elif it.k == 'fmt':
            continue
        else:
            out.append(('tok', it))


UNKNOWN = ('unknown', None)


def fmt_join(a, b):
    if a == b:
        return a
    sci = a[0] if a[0] == b[0] else 'unknown'
    pr = a[1] if a[1] == b[1] else None
    return (sci, pr)


def fmt_flow(items, grams, state, report, memo, depth=0):
    """Propagate the stream format state (notation, precision term) through the writer items;
    report(item, state) is called for every floating-point field."""
    for it in items:
        if it.k == 'fmt':
            if it.what in ('scientific', 'fixed', 'hexfloat', 'defaultfloat'):
                state = (it.what, state[1])
            elif it.what == 'precision':
                state = (state[0], it.arg)
            if it.pc:
                # conditional manipulator: the state afterwards is only known on that path
                pass
        elif it.k == 'field':
            if it.isfloat:
                report(it, state)
        elif it.k == 'sub':
            g = grams.get(it.cls)
            if g is None or depth > 6:
                state = UNKNOWN
            else:
                state = fmt_flow(g.writer, grams, state, report if depth < 0 else (lambda *_: None),
                                 memo, depth + 1)
        elif it.k == 'loop':
            # fixpoint: the body may be entered with the state it leaves
            s1 = fmt_flow(it.body, grams, state, lambda *_: None, memo, depth)
            entry = fmt_join(state, s1)
            s2 = fmt_flow(it.body, grams, entry, report, memo, depth)
            state = fmt_join(state, s2)
    return state
