"""Def-use summariser: turns the IR of a function into terms over its inputs.

This is *not* path exploration handed to a solver: statements are folded in program order into
one value per storage location; conditionals become `ite` terms at the join; loops are never
unrolled or iterated - a loop is summarised by one pass over its body with the loop-carried state
replaced by placeholders and is accepted only if every carried location matches a map / reduce /
append idiom, otherwise the location is marked `havoc` (unknown).  hep:: callees are inlined
(the call graph is acyclic); user callbacks and library calls are uninterpreted symbols plus
recorded effects.
"""
import re
from fractions import Fraction

import os
from . import ir
from .ir import N
from .terms import *   # noqa
from . import terms as T
from .frontend import AnalysisBroken, strip_targs

MATH_FNS = {'sqrt', 'pow', 'log', 'log2', 'fabs', 'abs', 'fmax', 'fmin', 'exp', 'nexttoward',
            'nextafter', 'isfinite', 'isnan', 'isinf', 'floor', 'ceil', 'trunc', 'max', 'min',
            'sin', 'cos', 'tan', 'atan', 'acos', 'copysign', 'signbit', 'round', 'ldexp'}


def LV(root, path=()):
    return ('lv', root, tuple(path))


def is_lv(x):
    return isinstance(x, tuple) and len(x) == 3 and x[0] == 'lv'


def int_width(t):
    """width in bits of an integer type on the LP64 target of this build, or None"""
    t = (t or '').replace('const ', '').replace('volatile ', '').strip()
    table = {'bool': 1, 'char': 8, 'signed char': 8, 'unsigned char': 8, 'short': 16, 'unsigned short': 16,
             'int': 32, 'unsigned int': 32, 'unsigned': 32, 'long': 64, 'unsigned long': 64,
             'long long': 64, 'unsigned long long': 64, 'std::size_t': 64, 'size_t': 64,
             'std::ptrdiff_t': 64, 'ptrdiff_t': 64, 'std::streamsize': 64}
    return table.get(t)


def subst_lv(lv, m):
    """substitute inside the index steps of an lvalue (T.subst leaves lvalues alone)"""
    if not (isinstance(lv, tuple) and len(lv) == 3 and lv[0] == 'lv'):
        return lv
    return ('lv', lv[1], tuple(('i', subst(st_[1], m)) if st_[0] == 'i' and isinstance(st_[1], tuple) else st_
                              for st_ in lv[2]))


def subst_effect(e, m):
    """apply a term substitution to every term-valued field of an effect (recursively for the
    bodies of nested loops)"""
    out = {}
    for k, v in e.items():
        if k in ('lo', 'hi', 'idx') and e.get('kind') == 'loop':
            out[k] = subst(v, m) if isinstance(v, tuple) and k != 'idx' else v
        elif k == 'body' and isinstance(v, list):
            out[k] = [subst_effect(x, m) for x in v]
        elif k == 'pc' and isinstance(v, (tuple, list)):
            out[k] = tuple(subst(c, m) for c in v)
        elif k == 'args' and isinstance(v, list):
            out[k] = [subst(x, m) if isinstance(x, tuple) else x for x in v]
        elif k == 'outs' and isinstance(v, list):
            out[k] = [(i_, subst_lv(lv_, m)) for i_, lv_ in v]
        elif k == 'ref_lvs' and isinstance(v, dict):
            out[k] = {i_: subst_lv(lv_, m) for i_, lv_ in v.items()}
        elif k in ('target', 'functor_lv') and isinstance(v, tuple):
            out[k] = subst_lv(v, m)
        elif k in ('node', 'argnodes', 'where', 'kind', 'name', 'func', 'functor', 'id',
                   'targs', 'loop', 'how', 'ty', 'type', 'const', 'implicit', 'to', 'frm',
                   'stream', 'label', 'callee'):
            out[k] = v
        elif isinstance(v, tuple) and v and isinstance(v[0], str):
            try:
                out[k] = subst(v, m)
            except Exception:
                out[k] = v
        else:
            out[k] = v
    return out


class State:
    __slots__ = ('env', 'refs', 'pc')

    def __init__(self, env=None, refs=None, pc=()):
        self.env = env if env is not None else {}
        self.refs = refs if refs is not None else {}
        self.pc = tuple(pc)

    def copy(self):
        return State(dict(self.env), dict(self.refs), self.pc)


class Frame:
    def __init__(self, func, this_lv):
        self.func = func
        self.this_lv = this_lv


class LoopSummary:
    def __init__(self):
        self.id = None
        self.node = None
        self.func = None
        self.idx = None       # index symbol
        self.lo = None
        self.hi = None
        self.regular = True
        self.why = None
        self.updates = {}     # label -> dict(loc, pre, next, final, kind, detail)
        self.effects = []
        self.exits = []       # (kind, path condition, value) of every way through the body
        self.elem = None      # for range-for: (vector lvalue, by_ref)
        self.discovered = None  # counter found by discover_induction (while loops)

    def __repr__(self):
        return '<Loop %s %s [%s,%s) %s>' % (self.id, self.node.where() if self.node else '?',
                                             T.pretty(self.lo), T.pretty(self.hi),
                                             {k: v['kind'] for k, v in self.updates.items()})


class Completion:
    __slots__ = ('kind', 'state', 'val')

    def __init__(self, kind, state, val=None):
        self.kind = kind
        self.state = state
        self.val = val


class Summary:
    def __init__(self):
        self.ret = None
        self.state = None
        self.this = None
        self.effects = []
        self.loops = []
        self.returns = []   # list of (pc, value)
        self.params = {}
        self.throws = []


def split_params(ftype):
    """Parameter type list of a clang-printed function type."""
    if not ftype:
        return []
    i = ftype.find('(')
    if i < 0:
        return []
    depth = 0
    j = i
    for j in range(i, len(ftype)):
        if ftype[j] == '(':
            depth += 1
        elif ftype[j] == ')':
            depth -= 1
            if depth == 0:
                break
    inner = ftype[i + 1:j]
    out = []
    depth = 0
    cur = ''
    for ch in inner:
        if ch in '<(':
            depth += 1
        elif ch in '>)':
            depth -= 1
        if ch == ',' and depth == 0:
            out.append(cur.strip())
            cur = ''
        else:
            cur += ch
    if cur.strip():
        out.append(cur.strip())
    return out


def is_mut_ref(t):
    t = (t or '').strip()
    return t.endswith('&') and not t.endswith('&&') and not t.startswith('const ')


def is_ref(t):
    t = (t or '').strip()
    return t.endswith('&')


def is_vector_type(t):
    t = ir.strip_cvref(t or '')
    return t.startswith('std::vector<') or t.startswith('std::array<')


def is_stream_type(t):
    t = ir.strip_cvref(t or '')
    return ('ostream' in t or 'istream' in t or 'ofstream' in t or 'ifstream' in t
            or 'stringstream' in t or 'basic_ios' in t)


class SymEx:
    def __init__(self, prog, opaque=(), max_depth=12, inline_filter=None, record_access=False):
        self.p = prog
        self.record_access = record_access
        self.opaque = set(opaque)
        self.max_depth = max_depth
        self.effects = []
        self.loops = []
        self.frames = []
        self.counter = 0
        self.writelog = None
        self.depth = 0
        self.inline_filter = inline_filter
        self.notes = []
        self.temp_id = 0
        self.loop_idx = []
        self.cur_target = None

    # ------------------------------------------------------------------ utilities
    def fresh(self, prefix):
        self.counter += 1
        return '%s#%d' % (prefix, self.counter)

    def effect(self, st, kind, **kw):
        e = {'kind': kind, 'pc': st.pc}
        e.update(kw)
        self.effects.append(e)
        return e

    # ------------------------------------------------------------------ lvalues
    def read(self, st, lv):
        _, root, path = lv
        if root in st.refs and root not in st.env:
            return self.read(st, ('lv', st.refs[root][1], st.refs[root][2] + path))
        if root not in st.env:
            val = sym(self.root_name(root))
        else:
            val = st.env[root]
        for step in path:
            if isinstance(val, tuple) and val[0] == 'ref':
                val = self.read(st, val[1])
            if step[0] == 'f':
                val = fld(val, step[1])
            else:
                val = sel(val, step[1])
        if isinstance(val, tuple) and val[0] == 'ref':
            val = self.read(st, val[1])
        if isinstance(val, tuple) and val and val[0] == 'moved' and self.frames and not getattr(self, '_in_moved', False):
            self._in_moved = True
            try:
                self.effect(st, 'moved_read', var=self.root_name(root) if isinstance(root, tuple) else
                            (self.lookup_name(root) or str(root)), moved_at=val[2], where=val[2])
            finally:
                self._in_moved = False
        return val

    def root_name(self, root):
        if isinstance(root, tuple):
            return root[-1]
        return str(root)

    def write(self, st, lv, val):
        _, root, path = lv
        if root in st.refs and root not in st.env:
            r = st.refs[root]
            return self.write(st, ('lv', r[1], r[2] + path), val)
        if self.writelog is not None:
            fp = []
            for s in path:
                if s[0] != 'f':
                    break
                fp.append(s)
            self.writelog.add((root, tuple(fp)))
        cur = st.env.get(root)
        if cur is None:
            cur = sym(self.root_name(root))
        st.env[root] = self._upd(st, cur, path, val)

    def _upd(self, st, cur, path, val):
        if isinstance(cur, tuple) and cur[0] == 'ref':
            # write through a reference member
            self.write(st, ('lv', cur[1][1], cur[1][2] + tuple(path)), val)
            return cur
        if not path:
            return val
        step = path[0]
        if step[0] == 'f':
            inner = fld(cur, step[1])
            return setfld(cur, step[1], self._upd(st, inner, path[1:], val))
        inner = sel(cur, step[1])
        return vupd(cur, step[1], self._upd(st, inner, path[1:], val))

    def new_temp(self, st, val, label='tmp'):
        self.temp_id += 1
        root = ('tmp', '%s%d' % (label, self.temp_id))
        st.env[root] = val
        return LV(root)

    # ------------------------------------------------------------------ entry point
    def summarise(self, func, args=None, this=None, this_type=None):
        """Summarise `func`.  args: dict param-name -> term (or lvalue); this: initial object term
        for methods (default: symbolic object `this`)."""
        st = State()
        args = args or {}
        this_lv = None
        if func.record is not None and func.kind in ('method', 'ctor', 'dtor'):
            root = ('this', 'this')
            if this is None:
                if func.kind == 'ctor':
                    this = mkobj(func.record.qualname, {})
                else:
                    this = mkobj(func.record.qualname, {}, origin=sym('this'))
            st.env[root] = this
            this_lv = LV(root)
        for p in func.params:
            if p.name in args:
                v = args[p.name]
            else:
                v = sym(p.name or ('arg%s' % p.id))
            if is_lv(v):
                st.refs[p.id] = v
            else:
                st.env[p.id] = v
        self.effects = []
        self.loops = []
        comps = self.call_body(st, func, this_lv)
        s = Summary()
        s.effects = self.effects
        s.loops = self.loops
        rets = [c for c in comps if c.kind in ('ret', 'fall')]
        s.throws = [c for c in comps if c.kind == 'throw']
        s.returns = [(c.state.pc, c.val) for c in rets]
        if rets:
            merged = self.merge([c.state for c in rets], ())
            s.state = merged
            s.ret = self.merge_vals(rets, ())
            if this_lv is not None:
                s.this = self.read(merged, this_lv)
        s.params = {p.name: p.id for p in func.params}
        return s

    def param_value(self, summary, name):
        st = summary.state
        pid = summary.params[name]
        return self.read(st, LV(pid))

    # ------------------------------------------------------------------ calls
    def call_body(self, st, func, this_lv):
        self.frames.append(Frame(func, this_lv))
        self.depth += 1
        try:
            if func.kind == 'ctor':
                self.run_inits(st, func, this_lv)
            comps = self.exec_block([func.body], 0, st)
        finally:
            self.depth -= 1
            self.frames.pop()
        return comps

    def run_inits(self, st, func, this_lv):
        rec = func.record
        inited = set()
        for kind, name, fid, e in func.inits:
            if kind == 'field':
                inited.add(name)
                ftype = None
                for f in rec.fields:
                    if f['name'] == name:
                        ftype = f['type']
                if ftype and ftype.strip().endswith('&'):
                    lv = self.eval_lv(st, e)
                    if lv is not None:
                        self.write(st, ('lv', this_lv[1], this_lv[2] + (('f', name),)), ('ref', lv))
                        continue
                self.cur_target = name
                try:
                    v = self.eval_init(st, e, ftype)
                finally:
                    self.cur_target = None
                self.write(st, ('lv', this_lv[1], this_lv[2] + (('f', name),)), v)
            elif kind == 'base':
                # base class constructor runs on the same object
                self.construct_into(st, this_lv, e, name)
            elif kind == 'delegate':
                self.construct_into(st, this_lv, e, rec.qualname)
        # default-initialise remaining own fields
        cur = self.read(st, this_lv)
        for f in rec.fields:
            if f['name'] in inited:
                continue
            have = fld(cur, f['name'])
            if isinstance(have, tuple) and have[0] == 'undef':
                t = ir.strip_cvref(f['type'] or '')
                if is_vector_type(t) or t.startswith('std::basic_string') or t == 'std::string':
                    self.write(st, ('lv', this_lv[1], this_lv[2] + (('f', f['name']),)),
                               vempty() if is_vector_type(t) else ('str', ''))

    def eval_init(self, st, e, ftype):
        if e is None:
            return ('undef', None, None)
        if e.op == 'initlist' and ir.strip_cvref(ftype or '').startswith('std::array'):
            # aggregate initialisation of an array member: the listed elements, the rest value-initialised
            m = re.search(r',\s*(\d+)>$', ir.strip_cvref(ftype or ''))
            flat = []
            stack = list(reversed(e.k))
            while stack:
                x = stack.pop()
                if x is not None and x.op == 'initlist':
                    stack.extend(reversed(x.k))
                elif x is not None:
                    flat.append(self.eval(st, x))
            if m:
                n_ = int(m.group(1))
                if all(v == ZERO for v in flat):
                    return ('vzeros', num(n_))
                return ('vlist',) + tuple(flat) + (ZERO,) * max(0, n_ - len(flat))
        if e.op == 'initlist' and len(e.k) == 1:
            return self.eval(st, e.k[0])
        if e.op == 'initlist' and len(e.k) == 0:
            t = ir.strip_cvref(ftype or '')
            if t.startswith('std::array'):
                m = re.search(r',\s*(\d+)>$', t)
                return ('vzeros', num(int(m.group(1)))) if m else vempty()
            if is_vector_type(t):
                return vempty()
            return ZERO
        return self.eval(st, e)

    def construct_into(self, st, this_lv, e, typename):
        """Run a (base / delegating) constructor expression on an existing object."""
        if e is None:
            return
        if e.op == 'initlist' and len(e.k) == 1:
            e = e.k[0]
        if e.op != 'construct':
            v = self.eval(st, e)
            self.copy_fields_into(st, this_lv, v)
            return
        if e.a.get('copy'):
            v = self.eval(st, e.k[0])
            self.copy_fields_into(st, this_lv, v)
            return
        rec = self.p.record_of_type(e.a.get('type'))
        if rec is not None and strip_targs(rec.qualname) in self.opaque:
            vals = [self.snap(st, self.eval(st, a)) for a in e.k if a.op != 'defaultarg']
            res = ('new', rec.qualname, self.fresh('n')) + tuple(vals)
            self.effect(st, 'hcall', name=strip_targs(rec.qualname) + '::ctor', args=vals,
                        where=e.where(), node=e.cid, target='<base>', rectype=rec.qualname, result=res)
            cur = self.read(st, this_lv)
            if isinstance(cur, tuple) and cur[0] == 'obj' and cur[2] is None:
                self.write(st, this_lv, ('obj', cur[1], res, cur[3]))
            return
        ctor = self.p.ctor_for(rec, e.a.get('ctype'), len(e.k)) if rec else None
        if ctor is None or ctor.body is None:
            if rec is not None and len(e.k) == 0:
                return   # trivial default constructor
            self.note('opaque base construction %s at %s' % (e.a.get('type'), e.where()))
            return
        self.bind_and_run(st, ctor, e.k, this_lv, e)

    def copy_fields_into(self, st, this_lv, v):
        if isinstance(v, tuple) and v[0] == 'obj':
            for n, x in v[3]:
                self.write(st, ('lv', this_lv[1], this_lv[2] + (('f', n),)), x)
            if v[2] is not None:
                cur = self.read(st, this_lv)
                if isinstance(cur, tuple) and cur[0] == 'obj' and cur[2] is None:
                    st.env[this_lv[1]] = self._upd(st, st.env[this_lv[1]], this_lv[2],
                                                   ('obj', cur[1], v[2], cur[3]))
        else:
            cur = self.read(st, this_lv)
            if isinstance(cur, tuple) and cur[0] == 'obj' and cur[2] is None:
                self.write(st, this_lv, ('obj', cur[1], v, cur[3]))

    def snap(self, st, v):
        """Replace iterators over an lvalue by iterators over the current value (for arguments of
        opaque calls, so that the term does not depend on later writes)."""
        if isinstance(v, tuple) and v and v[0] == 'iter' and is_lv(v[1]):
            return ('iter', self.read(st, v[1]), v[2])
        return v

    def note(self, s):
        if s not in self.notes:
            self.notes.append(s)

    def bind_and_run(self, st, func, argnodes, this_lv, callnode, pre_evaluated=None):
        """Bind arguments to parameters and inline the callee.  Returns the merged return value;
        st is updated in place."""
        if self.depth >= self.max_depth:
            raise AnalysisBroken('inlining depth exceeded at %s' % callnode.where())
        params = func.params
        binds = []
        for i, p in enumerate(params):
            a = argnodes[i] if i < len(argnodes) else None
            if pre_evaluated is not None and i < len(pre_evaluated):
                binds.append((p, pre_evaluated[i]))
                continue
            if a is None or (isinstance(a, N) and a.op == 'defaultarg'):
                if p.default is not None:
                    binds.append((p, self.eval(st, p.default)))
                else:
                    binds.append((p, sym('default:' + str(p.name))))
                continue
            if is_ref(p.type):
                if is_stream_type(ir.strip_cvref(p.type or '')):
                    sv = self.eval(st, a)
                    if isinstance(sv, tuple) and sv and sv[0] == 'stream':
                        # a stream handed on by reference is that stream (std::cout passed to a printing helper)
                        binds.append((p, sv))
                        continue
                lv = self.eval_lv(st, a)
                if lv is not None:
                    binds.append((p, lv))
                    continue
            binds.append((p, self.eval(st, a)))
        saved = {}
        for p, v in binds:
            saved[p.id] = (st.env.get(p.id), st.refs.get(p.id))
            st.env.pop(p.id, None)
            st.refs.pop(p.id, None)
            if is_lv(v):
                st.refs[p.id] = v
            else:
                st.env[p.id] = v
        comps = self.call_body(st, func, this_lv)
        live = [c for c in comps if c.kind in ('ret', 'fall')]
        thr = [c for c in comps if c.kind == 'throw']
        if not live:
            if thr:
                # callee always throws
                st.env = thr[0].state.env
                st.refs = thr[0].state.refs
                return ('throws',)
            return ('void',)
        base = st.pc
        merged = self.merge([c.state for c in live], base)
        ret = self.merge_vals(live, base)
        if thr:
            for c in thr:
                self.effect(c.state, 'throw', where=callnode.where())
            # the caller continues only on the paths on which the callee did not throw
            d = FALSE
            for c in live:
                d = lor(d, self.rel(c.state.pc, base))
            if d != TRUE:
                st.pc = tuple(base) + (d,)
        st.env = merged.env
        st.refs = merged.refs
        return ret

    # ------------------------------------------------------------------ merging
    def rel(self, pc, base):
        return conj(pc[len(base):])

    def merge(self, states, base):
        if len(states) == 1:
            s = states[0].copy()
            s.pc = tuple(base)
            return s
        out = states[-1].copy()
        for s in reversed(states[:-1]):
            c = self.rel(s.pc, base)
            keys = set(out.env) | set(s.env)
            for k in keys:
                a = s.env.get(k)
                b = out.env.get(k)
                if a is None or b is None:
                    # declared on one path only (scoped local): keep whichever exists
                    out.env[k] = a if b is None else b
                elif a != b:
                    out.env[k] = join(c, a, b)
            for k, v in s.refs.items():
                out.refs.setdefault(k, v)
        out.pc = tuple(base)
        return out

    def merge_vals(self, comps, base):
        vals = [(self.rel(c.state.pc, base), c.val) for c in comps]
        r = vals[-1][1]
        for c, v in reversed(vals[:-1]):
            if v is None and r is None:
                continue
            r = join(c, v, r)
        return r

    # ------------------------------------------------------------------ statements
    def exec_block(self, stmts, i, st):
        """Execute stmts[i:] starting in st; returns list of Completions."""
        while i < len(stmts):
            s = stmts[i]
            i += 1
            if s is None:
                continue
            op = s.op
            if op == 'block':
                comps = self.exec_block(s.k, 0, st)
                falls = [c for c in comps if c.kind == 'fall']
                others = [c for c in comps if c.kind != 'fall']
                # file streams declared in this block are destroyed (closed) when it is left
                fsd = [c for c in s.k if c is not None and c.op == 'decl' and 'fstream' in (c.a.get('type') or '')]
                for d_ in fsd:
                    for c in falls:
                        v_ = c.state.env.get(d_.a['id'])
                        if isinstance(v_, tuple) and v_ and v_[0] == 'stream':
                            self.effect(c.state, 'streamop', stream=v_, name='close', args=[], implicit=True,
                                        where=s.where(), node=d_.cid)
                if not others and len(falls) == 1:
                    st = falls[0].state
                    continue
                return self.continue_after(falls, others, stmts, i, st.pc)
            if op == 'decl':
                self.exec_decl(st, s)
                continue
            if op == 'expr':
                v = self.eval(st, s.k[0])
                if v == ('throws',):
                    return [Completion('throw', st)]
                continue
            if op == 'null':
                continue
            if op == 'return':
                v = None
                if s.k:
                    f = self.frames[-1].func
                    if f.ret_type and is_ref(f.ret_type):
                        lv = self.eval_lv(st, s.k[0])
                        v = self.read(st, lv) if lv is not None else self.eval(st, s.k[0])
                    else:
                        v = self.eval(st, s.k[0])
                return [Completion('ret', st, v)]
            if op == 'break':
                return [Completion('brk', st)]
            if op == 'continue':
                return [Completion('cont', st)]
            if op == 'if':
                c = self.cond(st, s.k[0])
                base = st.pc
                outs = []
                if c != FALSE:
                    s1 = st.copy()
                    s1.pc = base + (c,)
                    outs += self.exec_block([s.k[1]], 0, s1)
                if c != TRUE:
                    s2 = st.copy()
                    s2.pc = base + (lnot(c),)
                    if len(s.k) > 2 and s.k[2] is not None:
                        outs += self.exec_block([s.k[2]], 0, s2)
                    else:
                        outs.append(Completion('fall', s2))
                falls = [o for o in outs if o.kind == 'fall']
                others = [o for o in outs if o.kind != 'fall']
                if not others:
                    st = self.merge([f.state for f in falls], base)
                    continue
                return self.continue_after(falls, others, stmts, i, base)
            if op in ('for', 'rangefor', 'while', 'do'):
                comps = self.exec_loop(st, s)
                if comps is None:
                    continue
                falls = [c for c in comps if c.kind == 'fall']
                others = [c for c in comps if c.kind != 'fall']
                return self.continue_after(falls, others, stmts, i, st.pc)
            if op == 'switch':
                comps = self.exec_switch(st, s)
                falls = [c for c in comps if c.kind == 'fall']
                others = [c for c in comps if c.kind != 'fall']
                return self.continue_after(falls, others, stmts, i, st.pc)
            if op == 'try':
                comps = self.exec_block([s.k[0]], 0, st)
                falls = [c for c in comps if c.kind == 'fall']
                others = [c for c in comps if c.kind != 'fall']
                return self.continue_after(falls, others, stmts, i, st.pc)
            if op == 'unknown':
                raise AnalysisBroken('unsupported statement %s at %s' % (s.a.get('kind'), s.where()))
            # expression used as a statement
            v = self.eval(st, s)
            if v == ('throws',):
                return [Completion('throw', st)]
        return [Completion('fall', st)]

    def continue_after(self, falls, others, stmts, i, base):
        if not falls:
            return others
        st = self.merge([f.state for f in falls], base) if len(falls) > 1 else falls[0].state
        if len(falls) > 1 and not others:
            # every path through the construct rejoins here (e.g. a switch whose cases all `break`):
            # the join is reached under the condition the construct was entered with
            st.pc = tuple(base)
        elif len(falls) > 1:
            # the merged state is reached under the disjunction of the fall-through conditions
            d = FALSE
            for f in falls:
                d = lor(d, self.rel(f.state.pc, base))
            st.pc = tuple(base) + ((d,) if d != TRUE else ())
        return others + self.exec_block(stmts, i, st)

    def exec_decl(self, st, s):
        vid = s.a['id']
        t = s.a.get('type') or ''
        st.env.pop(vid, None)
        st.refs.pop(vid, None)
        if not s.k:
            bt = ir.strip_cvref(t)
            if is_vector_type(bt):
                st.env[vid] = vempty()
            elif bt in ('std::string', 'std::basic_string<char>') or bt.startswith('std::basic_string'):
                st.env[vid] = ('str', '')
            elif 'stringstream' in bt or 'ostringstream' in bt:
                st.env[vid] = ('stream', self.fresh('sstream'))
            else:
                rec = self.p.record_of_type(bt) if 'hep::' in bt else None
                st.env[vid] = ('undef', 'local', s.a.get('name'))
            return
        e = s.k[0]
        if is_ref(t):
            lv = self.eval_lv(st, e)
            if lv is not None:
                st.refs[vid] = lv
                return
        st.env[vid] = self.eval(st, e)

    def exec_switch(self, st, s):
        c = self.eval(st, s.k[0])
        body = s.k[1]
        stmts = body.k if body.op == 'block' else [body]
        # flatten: case labels wrap their first statement
        flat = []
        labels = []
        for x in stmts:
            while x is not None and x.op in ('case', 'default'):
                if x.op == 'case':
                    labels.append((len(flat), self.eval(st, x.k[0])))
                    x = x.k[1] if len(x.k) > 1 else None
                else:
                    labels.append((len(flat), None))
                    x = x.k[0] if x.k else None
            if x is not None:
                flat.append(x)
        outs = []
        base = st.pc
        nots = []
        default_at = None
        for pos, val in labels:
            if val is None:
                default_at = pos
                continue
            s1 = st.copy()
            cc = T.cmp('==', c, val)
            s1.pc = base + (cc,)
            nots.append(lnot(cc))
            outs += self.exec_block(flat, pos, s1)
        s2 = st.copy()
        s2.pc = base + tuple(nots)
        if default_at is not None:
            outs += self.exec_block(flat, default_at, s2)
        else:
            outs.append(Completion('fall', s2))
        res = []
        for o in outs:
            if o.kind == 'brk':
                res.append(Completion('fall', o.state))
            else:
                res.append(o)
        return res

    # ------------------------------------------------------------------ loops
    def loop_header(self, st, s):
        """Returns (idx_root, lo, hi, elem) or None if the loop has no recognised counting form.
        elem = (elem var id, vector lvalue or term, by_ref) for range-for."""
        if s.op == 'rangefor':
            rng = s.k[0]
            lv = self.eval_lv(st, rng)
            vec = self.read(st, lv) if lv is not None else self.eval(st, rng)
            return (('idx', s.cid), ZERO, size(vec), (s.a['id'], lv, vec, is_ref(s.a.get('type')),
                                                        is_mut_ref(s.a.get('type'))))
        if s.op != 'for':
            return None
        init, cond, inc, body = s.k
        if init is None or init.op != 'decl' or not init.k or cond is None or inc is None:
            return None
        vid = init.a['id']
        # increment must be ++i / i++ / i += 1
        ok = False
        if inc.op == 'un' and inc.a['o'] == '++' and inc.k[0].op == 'var' and inc.k[0].a['id'] == vid:
            ok = True
        if inc.op == 'opcall' and inc.a.get('opname') == 'operator++' and inc.k and \
                inc.k[0].op == 'var' and inc.k[0].a['id'] == vid:
            ok = True
        if inc.op == 'assign' and inc.a['o'] == '+=' and inc.k[0].op == 'var' and \
                inc.k[0].a['id'] == vid and inc.k[1].op == 'lit' and inc.k[1].a['value'] == 1:
            ok = True
        if not ok:
            return None
        lo = self.eval(st, init.k[0])
        # condition i != hi or i < hi
        cnode = cond
        l = r = None
        if cnode.op == 'bin' and cnode.a['o'] in ('!=', '<'):
            l, r = cnode.k
        elif cnode.op == 'opcall' and cnode.a.get('opname') in ('operator!=', 'operator<'):
            l, r = cnode.k
        else:
            return None
        def strip(x):
            while x is not None and x.op in ('paren', 'cast') and x.k and x.a.get('kind') not in ('IntegralCast',):
                x = x.k[0]
            return x
        l, r = strip(l), strip(r)
        is_ne = (cnode.a.get('o') == '!=') or cnode.a.get('opname') == 'operator!='
        if is_ne and not (l.op == 'var' and l.a['id'] == vid) and \
                ((r.op == 'var' and r.a['id'] == vid) or (r.op == 'bin' and r.a.get('o') == '+')):
            # `n != i` / `n != i + 1`: the comparison is symmetric
            l, r = r, l
        if l.op == 'bin' and l.a.get('o') == '+' and is_ne:
            # `(i + c) != n` with a literal c: i runs to n - c (unsigned: the caller's rules decide whether n >= c)
            a_, b_ = strip(l.k[0]), strip(l.k[1])
            if b_.op == 'var' and b_.a.get('id') == vid:
                a_, b_ = b_, a_
            if a_.op == 'var' and a_.a.get('id') == vid and b_.op == 'lit' and isinstance(b_.a.get('value'), int):
                return (vid, lo, sub(self.eval(st, r), num(b_.a['value'])), None)
            return None
        if not (l.op == 'var' and l.a['id'] == vid):
            return None
        hi = self.eval(st, r)
        return (vid, lo, hi, None)

    def exec_loop(self, st, s):
        """Summarise a loop; st is updated in place.  Returns None (normal fall-through) or a
        list of completions when the loop can return."""
        ls = LoopSummary()
        ls.id = len(self.loops)
        ls.node = s
        ls.func = self.frames[-1].func
        self.loops.append(ls)
        s_flag = self.rewrite_flag_loop(st, s)
        if s_flag is None and s.op == 'do':
            s_flag = self.rewrite_do_loop(st, s)
        if s_flag is not None:
            s = s_flag
            ls.node = s
        hdr = self.loop_header(st, s)
        body = s.k[-1] if s.op != 'do' else s.k[0]
        iterator_loop = False
        disc = None
        if hdr is None and s.op in ('while', 'for'):
            try:
                disc = self.discover_induction(st, s)
            except AnalysisBroken:
                disc = None
        ls.discovered = disc
        if disc is not None:
            idx_root, lo, hi, elem = disc['root'], disc['lo'], disc['hi'], None
            if disc.get('iter') is not None:
                iterator_loop = disc['iter']
        elif hdr is None:
            ls.regular = False
            ls.why = 'no counting header'
            idx_root, lo, hi, elem = None, None, None, None
        else:
            idx_root, lo, hi, elem = hdr
            if isinstance(lo, tuple) and lo[0] == 'iter':
                if isinstance(hi, tuple) and hi[0] == 'iter' and hi[1] == lo[1]:
                    iterator_loop = lo[1]
                    lo, hi = lo[2], hi[2]
                else:
                    ls.regular = False
                    ls.why = 'iterator loop over different ranges'
        isym = sym('%s@L%d' % (self.loop_var_name(s), ls.id))
        ls.idx, ls.lo, ls.hi = isym, lo, hi
        ls.pc = tuple(st.pc)
        if lo is not None and hi is not None:
            T.RANGES[isym] = (lo, hi)

        if disc is not None and s.op == 'for' and s.k[0] is not None:
            # variables declared in the init-statement of a discovered loop (e.g. a second iterator that
            # advances in lock-step) are loop-carried like variables declared in front of the loop
            self.exec_block([s.k[0]], 0, st)

        def setup(state):
            if disc is not None:
                if disc['kind'] == 'up':
                    state.refs.pop(idx_root, None)
                    state.env[idx_root] = ('iter', iterator_loop, isym) if iterator_loop else isym
                elif disc['kind'] == 'down':
                    state.refs.pop(idx_root, None)
                    state.env[idx_root] = sub(disc['v0'], isym)
                elif disc['kind'] == 'upc':
                    state.refs.pop(idx_root, None)
                    state.env[idx_root] = add(disc['v0'], mul(disc['step'], isym))
                return
            if idx_root is None:
                return
            if elem is not None:
                eid, vlv, vec, by_ref, mut = elem
                state.env.pop(eid, None)
                state.refs.pop(eid, None)
                if vlv is not None and by_ref:
                    state.refs[eid] = ('lv', vlv[1], vlv[2] + (('i', isym),))
                else:
                    cur = self.read(state, vlv) if vlv is not None else vec
                    state.env[eid] = sel(cur, isym)
            else:
                state.refs.pop(idx_root, None)
                state.env[idx_root] = ('iter', iterator_loop, isym) if iterator_loop else isym

        self.loop_idx.append(isym)
        try:
            r = self.exec_loop2(st, s, ls, hdr if disc is None else ('disc', disc), body, idx_root, lo, hi,
                                elem, isym, setup)
            if disc is not None and disc['kind'] in ('up', 'down', 'upc') and \
                    (idx_root in st.env or idx_root in st.refs):
                if disc['kind'] == 'up':
                    fin = ('iter', iterator_loop, hi) if iterator_loop else hi
                elif disc['kind'] == 'upc':
                    fin = add(disc['v0'], mul(disc['step'], hi))
                else:
                    fin = sub(ZERO, ONE) if disc.get('cond_writes') else ZERO
                self.write_nolog(st, ('lv', idx_root, ()), fin)
            return r
        finally:
            self.loop_idx.pop()

    def rewrite_flag_loop(self, st, s):
        """`for (init; flag && C; inc) { ...; flag = E; }` with a boolean local `flag` that is true on
        entry, assigned only by the last statement of the body and not read elsewhere in the body is
        the loop `for (init; C; inc) { ...; flag = E; if (!flag) break; }` (the spelling with `break`
        that the loop rules know).  Returns the rewritten node or None."""
        if s.op not in ('for', 'while'):
            return None
        cnode = s.k[1] if s.op == 'for' else s.k[0]
        body = s.k[-1]
        always = cnode is None or (cnode.op == 'lit' and cnode.a.get('value') is True)
        if always and body is not None and body.op == 'block' and body.k and \
                (s.op == 'while' or (s.k[0] is None and s.k[2] is None)):
            # form (d): `while (true) { if (C) break; rest }`  ==  `while (!C) { rest }`
            first = body.k[0]
            if first is not None and first.op == 'if' and (len(first.k) < 3 or first.k[2] is None):
                then = first.k[1]
                stmts = then.k if then is not None and then.op == 'block' else [then]
                if len(stmts) == 1 and stmts[0] is not None and stmts[0].op == 'break':
                    loc = s.loc
                    ncond = N('un', [first.k[0]], loc=loc, o='!', ty='bool')
                    nbody = N('block', list(body.k[1:]), loc=body.loc, cid=body.cid)
                    return N('while', [ncond, nbody], loc=s.loc, cid=s.cid, **s.a)
            return None
        if s.op == 'while' and cnode is not None and cnode.op == 'var' and body is not None and body.op == 'block' \
                and body.k and (cnode.ty or '').replace('const ', '') == 'bool':
            # form (c): `flag = C; while (flag) { ...; flag = D && C; }` (C is the loop condition proper,
            # re-evaluated after the body; D the decision to go on)  ==  `while (C) { ...; if (!D) break; }`
            fid = cnode.a['id']
            last = body.k[-1]
            a_ = last.k[0] if last is not None and last.op == 'expr' and last.k else last
            if a_ is None or a_.op != 'assign' or a_.a.get('o') != '=' or a_.k[0].op != 'var' or \
                    a_.k[0].a.get('id') != fid or a_.k[1].op != 'bin' or a_.k[1].a.get('o') != '&&':
                return None
            for part in body.k[:-1]:
                if part is not None and any(n.op == 'var' and n.a.get('id') == fid for n in part.walk()):
                    return None
            init_val = st.env.get(fid)
            for X, D in ((a_.k[1].k[1], a_.k[1].k[0]), (a_.k[1].k[0], a_.k[1].k[1])):
                if any(n.op == 'call' or (n.op == 'opcall' and n.a.get('opname') not in
                                          ('operator!=', 'operator==', 'operator<', 'operator+', 'operator-', 'operator*'))
                       or (n.op == 'mcall' and n.a.get('name') not in ('begin', 'end', 'cbegin', 'cend', 'size', 'empty'))
                       for n in X.walk()):
                    continue
                neff = len(self.effects)
                try:
                    xv = self.cond(st.copy(), X)
                except AnalysisBroken:
                    xv = None
                del self.effects[neff:]
                if xv is not None and xv == init_val:
                    loc = s.loc
                    brk = N('if', [N('un', [D], loc=loc, o='!', ty='bool'), N('block', [N('break', loc=loc)], loc=loc)],
                            loc=loc)
                    nbody = N('block', list(body.k[:-1]) + [brk], loc=body.loc, cid=body.cid)
                    return N('while', [X, nbody], loc=s.loc, cid=s.cid, **s.a)
            return None
        if cnode is None or cnode.op != 'bin' or cnode.a.get('o') != '&&' or body is None or body.op != 'block' \
                or not body.k:
            return None
        fl = other = None
        pos = True
        for a, b in ((cnode.k[0], cnode.k[1]), (cnode.k[1], cnode.k[0])):
            if a.op == 'var' and (a.ty or '').replace('const ', '') == 'bool':
                fl, other = a, b
                break
            if a.op == 'un' and a.a.get('o') == '!' and a.k[0].op == 'var' and \
                    (a.k[0].ty or '').replace('const ', '') == 'bool':
                # `!stop && C`: the flag with the opposite polarity
                fl, other, pos = a.k[0], b, False
                break
        if fl is None:
            return None
        fid = fl.a['id']
        if st.env.get(fid) != (TRUE if pos else FALSE) or fid in st.refs:
            return None
        last = body.k[-1]
        loc = s.loc

        def is_flag_assign(n_):
            a_ = n_.k[0] if n_ is not None and n_.op == 'expr' and n_.k else n_
            if a_ is not None and a_.op == 'assign' and a_.a.get('o') == '=' and a_.k[0].op == 'var' and \
                    a_.k[0].a.get('id') == fid:
                return a_
            return None

        def uses_in(parts):
            u = 0
            for part in parts:
                if part is None:
                    continue
                for n in part.walk():
                    if n.op == 'var' and n.a.get('id') == fid:
                        u += 1
            return u

        def flagvar():
            return N('var', ty='bool', loc=loc, id=fid, name=fl.a.get('name'))

        def goes_on(c_):
            """is the condition `c_` the test "the flag says go on"?"""
            if c_ is None:
                return False
            while c_.op in ('paren',) and c_.k:
                c_ = c_.k[0]
            if pos:
                return c_.op == 'var' and c_.a.get('id') == fid
            return c_.op == 'un' and c_.a.get('o') == '!' and c_.k[0].op == 'var' and c_.k[0].a.get('id') == fid
        tail = [other] + ([s.k[2]] if s.op == 'for' and s.k[2] is not None else [])
        where_asg = [i for i, x in enumerate(body.k) if is_flag_assign(x) is not None]
        if len(where_asg) == 1:
            # form (a): `A; flag = E; B` where every statement of B is `if (flag) { ... }`: the rest of the
            # body does nothing once the flag says stop, so the loop is `A; flag = E; if (!flag) break; B'`
            k = where_asg[0]
            asg = is_flag_assign(body.k[k])
            rest = []
            unguarded = []
            for x in body.k[k + 1:]:
                if x is None or x.op == 'null':
                    continue
                if x.op == 'if' and (len(x.k) < 3 or x.k[2] is None) and goes_on(x.k[0]):
                    then = x.k[1]
                    rest.extend(then.k if then is not None and then.op == 'block' else [then])
                elif x.op == 'expr' and x.k and x.k[0] is not None and \
                        (x.k[0].op == 'un' and x.k[0].a.get('o') in ('++', '--') or
                         x.k[0].op == 'opcall' and x.k[0].a.get('opname') in ('operator++', 'operator--')):
                    # a counter / iterator that is advanced whatever the flag says: it still runs once before the
                    # loop is left
                    rest.append(x)
                    unguarded.append(x)
                else:
                    return None
            if uses_in(list(body.k[:k]) + [asg.k[1]] + tail + rest):
                return None
            stopc = N('un', [flagvar()], loc=loc, o='!', ty='bool') if pos else flagvar()
            # the increment still runs once before the condition fails: keep it when the counter outlives the loop
            keep_inc = [N('expr', [s.k[2]], loc=loc)] if s.op == 'for' and s.k[2] is not None and \
                not (s.k[0] is not None and s.k[0].op == 'decl') else []
            brk = N('if', [stopc, N('block', unguarded + keep_inc + [N('break', loc=loc)], loc=loc)], loc=loc)
            nbody = N('block', list(body.k[:k + 1]) + [brk] + rest, loc=body.loc, cid=body.cid)
        elif last is not None and last.op == 'if' and len(last.k) >= 3 and last.k[2] is not None and \
                is_flag_assign((last.k[1].k if last.k[1] is not None and last.k[1].op == 'block' else [last.k[1]])[0]
                               if (last.k[1].k if last.k[1] is not None and last.k[1].op == 'block' else [last.k[1]]) else None) \
                is not None and len(last.k[1].k if last.k[1].op == 'block' else [last.k[1]]) == 1:
            # form (b'): `...; if (C) { flag = false; } else { S }`  ==  `...; if (C) { flag = false; break; } S`
            then = last.k[1]
            stmts = then.k if then.op == 'block' else [then]
            a2 = is_flag_assign(stmts[0])
            if not (a2.k[1].op == 'lit' and a2.k[1].a.get('value') is (not pos)):
                return None
            els = last.k[2]
            rest = list(els.k) if els.op == 'block' else [els]
            if uses_in(list(body.k[:-1]) + [last.k[0]] + tail + rest):
                return None
            keep_inc = [N('expr', [s.k[2]], loc=loc)] if s.op == 'for' and s.k[2] is not None and \
                not (s.k[0] is not None and s.k[0].op == 'decl') else []
            nthen = N('block', [stmts[0]] + keep_inc + [N('break', loc=loc)], loc=loc)
            nlast = N('if', [last.k[0], nthen], loc=last.loc, cid=last.cid)
            nbody = N('block', list(body.k[:-1]) + [nlast] + rest, loc=body.loc, cid=body.cid)
        elif last is not None and last.op == 'if' and (len(last.k) < 3 or last.k[2] is None):
            # form (b): `...; if (C) { flag = false; }`
            then = last.k[1]
            stmts = then.k if then is not None and then.op == 'block' else [then]
            if len(stmts) != 1:
                return None
            a2 = is_flag_assign(stmts[0])
            if a2 is None or not (a2.k[1].op == 'lit' and a2.k[1].a.get('value') is (not pos)):
                return None
            if uses_in(list(body.k[:-1]) + [last.k[0]] + tail):
                return None
            keep_inc = [N('expr', [s.k[2]], loc=loc)] if s.op == 'for' and s.k[2] is not None and \
                not (s.k[0] is not None and s.k[0].op == 'decl') else []
            nthen = N('block', [stmts[0]] + keep_inc + [N('break', loc=loc)], loc=loc)
            nlast = N('if', [last.k[0], nthen], loc=last.loc, cid=last.cid)
            nbody = N('block', list(body.k[:-1]) + [nlast], loc=body.loc, cid=body.cid)
        else:
            return None
        if s.op == 'for':
            return N('for', [s.k[0], other, s.k[2], nbody], loc=s.loc, cid=s.cid, **s.a)
        return N('while', [other, nbody], loc=s.loc, cid=s.cid, **s.a)

    def rewrite_do_loop(self, st, s):
        """`do { body } while (c);` whose condition provably holds on entry (under the current path
        condition; sizes are non-negative) is `while (c) { body }`.  Returns the rewritten node or None."""
        body, cnode = s.k[0], s.k[1]
        if cnode is None or body is None:
            return None
        neff = len(self.effects)
        try:
            c0 = self.cond(st.copy(), cnode)
        except AnalysisBroken:
            return None
        finally:
            del self.effects[neff:]
        from .rules.common import simplify_under, norm_cond
        c0 = simplify_under(c0, st.pc)

        def positive(t):
            # size + k with k >= 1, or a positive literal
            if is_num(t):
                return t[1] > 0
            if isinstance(t, tuple) and t and t[0] == '+':
                a, b = t[1], t[2]
                return (nonneg(a) and positive(b)) or (positive(a) and nonneg(b))
            return False

        def nonneg(t):
            if is_num(t):
                return t[1] >= 0
            if isinstance(t, tuple) and t and t[0] == 'size':
                return True
            if isinstance(t, tuple) and t and t[0] in ('+', '*'):
                return nonneg(t[1]) and nonneg(t[2])
            return positive(t)
        n = norm_cond(c0)
        if isinstance(n, tuple) and len(n) == 3 and n[0] == '!=' and \
                ((n[1] == ZERO and positive(n[2])) or (n[2] == ZERO and positive(n[1]))):
            c0 = TRUE
        if c0 != TRUE:
            return None
        return N('while', [cnode, body], loc=s.loc, cid=s.cid, **s.a)

    def discover_induction(self, st, s):
        """`while` loops and `for` loops without a plain counting header: find the counter by a trial
        iteration.  Accepted forms (each verified with a symbolic counter value, so that the counter
        advances by exactly one on every path through the body):
          up:    a variable (integer or iterator) x with x' = x + 1 and condition x != H / x < H
          down:  an integer n with n' = n - 1 and condition n != 0 / n > 0  (also `n--` in the condition)
          size:  a vector V with |V|' = |V| + 1 and condition |V| < N / |V| != N
        Returns a dict or None."""
        if s.op == 'while':
            init, cnode, inc, body = None, s.k[0], None, s.k[1]
        else:
            init, cnode, inc, body = s.k
        if cnode is None:
            return None
        neff, nloops = len(self.effects), len(self.loops)
        oldlog = self.writelog

        def trial(prep):
            self.writelog = set()
            s0 = st.copy()
            if init is not None:
                self.exec_block([init], 0, s0)
            prep(s0)
            entry = s0.copy()
            c = self.cond(s0, cnode)
            aftercond = s0.copy()
            comps = self.exec_block([body], 0, s0)
            live = [x for x in comps if x.kind in ('fall', 'cont')]
            if not live:
                return None
            if inc is not None:
                for x in live:
                    self.eval(x.state, inc)
            after = self.merge([x.state for x in live], entry.pc) if len(live) > 1 else live[0].state
            return entry, c, aftercond, after, set(self.writelog)

        def value(state, root):
            if root in state.refs:
                return None
            return state.env.get(root)

        try:
            t = trial(lambda st0: None)
            if t is None:
                return None
            entry, c0, aftercond, after, wl = t
            if os.environ.get('HEPSA_DBG'): print('DI wl', wl, 'inc', ir.show(inc) if inc is not None else None)
            K = sym('__k%d' % len(self.loops))
            for root, fpath in sorted(wl, key=str):
                if fpath != ():
                    continue
                v0, v1 = value(entry, root), value(after, root)
                if v0 is None or v1 is None:
                    continue
                kind = it = None
                if isinstance(v0, tuple) and v0[0] == 'iter' and isinstance(v1, tuple) and v1[0] == 'iter' \
                        and v1[1] == v0[1]:
                    if v1[2] == add(v0[2], ONE):
                        kind, it = 'up', v0[1]
                elif isinstance(v0, tuple) and v0 and v0[0] in ('iter', 'obj', 'vec'):
                    continue
                elif v1 == add(v0, ONE):
                    kind = 'up'
                elif v1 == sub(v0, ONE):
                    kind = 'down'
                else:
                    d_ = T.diff(v1, v0)
                    if is_num(d_) and d_[1].denominator == 1 and d_[1] >= 2:
                        kind = 'upc'
                        step = d_
                if kind is None:
                    if os.environ.get('HEPSA_DBG'): print('DI no kind', root, T.pretty(v0)[:80], T.pretty(v1)[:80])
                    continue

                def prep(st0, root=root, it=it):
                    st0.refs.pop(root, None)
                    st0.env[root] = ('iter', it, K) if it is not None else K
                t2 = trial(prep)
                if t2 is None:
                    continue
                e2, c, ac2, a2, _ = t2
                n2 = value(a2, root)
                exp = add(K, ONE) if kind == 'up' else sub(K, ONE) if kind == 'down' else add(K, step)
                if it is not None:
                    exp = ('iter', it, exp)
                if n2 != exp:
                    if os.environ.get('HEPSA_DBG'): print('DI n2!=exp', T.pretty(n2)[:80], T.pretty(exp)[:80])
                    continue
                # the bound must not change during an iteration
                a3 = a2.copy()
                a3.env[root] = ('iter', it, K) if it is not None else K
                save = self.writelog
                c_again = self.cond(a3, cnode)
                self.writelog = save
                if c_again != c:
                    if os.environ.get('HEPSA_DBG'): print('DI cond changes', T.pretty(c)[:120], T.pretty(c_again)[:120])
                    continue
                from .rules.common import norm_cond
                cn = norm_cond(c)
                if not (isinstance(cn, tuple) and len(cn) == 3 and cn[0] in ('!=', '<')):
                    continue
                opn, L, R = cn
                if kind == 'upc':
                    # counter advancing by a constant c >= 2: x != H (or x < H) with H - x0 = c * n
                    if L == K and not occurs(R, K):
                        H = R
                    elif R == K and not occurs(L, K) and opn == '!=':
                        H = L
                    else:
                        continue
                    D = T.diff(H, v0)
                    n_ = None
                    if is_num(D) and (D[1] / step[1]).denominator == 1:
                        n_ = ('num', D[1] / step[1])
                    elif isinstance(D, tuple) and D and D[0] == '*' and D[1] == step:
                        n_ = D[2]
                    elif isinstance(D, tuple) and D and D[0] == '*' and D[2] == step:
                        n_ = D[1]
                    if n_ is None:
                        continue
                    return {'root': root, 'kind': 'upc', 'lo': ZERO, 'hi': n_, 'iter': None, 'v0': v0, 'step': step}
                if kind == 'up':
                    if L == K and not occurs(R, K) and opn in ('!=', '<'):
                        H = R
                    elif R == K and not occurs(L, K) and opn == '!=':
                        H = L
                    else:
                        continue
                    lo = v0[2] if it is not None else v0
                    return {'root': root, 'kind': 'up', 'lo': lo, 'hi': H, 'iter': it, 'v0': v0}
                else:
                    if opn == '!=' and ((L == K and R == ZERO) or (R == K and L == ZERO)):
                        pass
                    elif opn == '<' and L == ZERO and R == K:
                        pass
                    else:
                        continue
                    cw = value(ac2, root) != value(e2, root)
                    return {'root': root, 'kind': 'down', 'lo': ZERO, 'hi': v0, 'iter': None, 'v0': v0,
                            'cond_writes': cw}
            # size of a vector as the counter
            if cnode.op == 'bin' and cnode.a['o'] in ('<', '!=', '>'):
                for side in (0, 1):
                    a, b = cnode.k[side], cnode.k[1 - side]
                    if not (a.op == 'mcall' and a.a.get('name') == 'size' and a.k):
                        continue
                    o = cnode.a['o']
                    if (o == '<' and side != 0) or (o == '>' and side != 1):
                        continue
                    vlv = self.eval_lv(entry, a.k[0])
                    if vlv is None:
                        continue
                    V0, V1 = self.read(entry, vlv), self.read(after, vlv)
                    if size(V1) != add(size(V0), ONE):
                        continue
                    if not (isinstance(V1, tuple) and V1[0] == 'vpush' and V1[1] == V0):
                        continue
                    N0, N1 = self.eval(entry.copy(), b), self.eval(after.copy(), b)
                    if N0 != N1:
                        continue
                    return {'root': None, 'kind': 'size', 'lo': size(V0), 'hi': N0, 'iter': None,
                            'v0': V0, 'vec': vlv}
            return None
        finally:
            self.writelog = oldlog
            del self.effects[neff:]
            del self.loops[nloops:]

    def exec_loop2(self, st, s, ls, hdr, body, idx_root, lo, hi, elem, isym, setup):
        # pass 1: which locations does the body write?
        neff = len(self.effects)
        nloops = len(self.loops)
        s1 = st.copy()
        setup(s1)
        oldlog = self.writelog
        self.writelog = set()
        try:
            disc = hdr[1] if isinstance(hdr, tuple) and hdr and hdr[0] == 'disc' else None
            if disc is not None:
                self.eval(s1, s.k[1] if s.op == 'for' else s.k[0])
            elif s.op in ('while', 'do') or hdr is None:
                # evaluate condition/increment too, they may have effects
                if s.op == 'for':
                    if s.k[0] is not None:
                        self.exec_block([s.k[0]], 0, s1)
                    if s.k[1] is not None:
                        self.eval(s1, s.k[1])
                elif s.op == 'while':
                    self.eval(s1, s.k[0])
            comps1 = self.exec_block([body], 0, s1)
            if s.op == 'for' and (hdr is None or disc is not None) and s.k[2] is not None:
                for c in comps1:
                    if c.kind in ('fall', 'cont'):
                        self.eval(c.state, s.k[2])
            wl = self.writelog
            live1 = [c for c in comps1 if c.kind in ('fall', 'cont')]
            merged1 = self.merge([c.state for c in live1], s1.pc) if live1 else None
        finally:
            self.writelog = oldlog
        if oldlog is not None:
            oldlog |= wl
        del self.effects[neff:]
        del self.loops[nloops:]
        # only locations that exist before the loop are loop-carried
        carried = []
        for root, fpath in sorted(wl, key=lambda x: str(x)):
            if idx_root is not None and root == idx_root:
                continue
            if elem is not None and root == elem[0]:
                continue
            if root in st.env or root in st.refs:
                carried.append((root, fpath))
        # drop locations subsumed by a shorter path
        carried = [c for c in carried
                   if not any(o != c and o[0] == c[0] and c[1][:len(o[1])] == o[1] and
                              len(o[1]) < len(c[1]) for o in carried)]
        # pass 2: body with placeholders
        s2 = st.copy()
        s2.pc = ()
        pres = {}
        iter_wrapped = {}
        for root, fpath in carried:
            label = self.loc_label(st, root, fpath)
            pre = ('pre', ls.id, label)
            pres[(root, fpath)] = (label, pre)
            try:
                # the placeholder keeps the size only if one pass over the body does not change it
                cur0 = self.read(st, ('lv', root, fpath))
                sz = size(cur0)
                same = merged1 is not None and size(self.read(merged1, ('lv', root, fpath))) == sz
                if same and not (isinstance(sz, tuple) and sz[0] == 'size' and sz[1] == cur0):
                    T.SIZES[pre] = sz
            except Exception:
                pass
            itw = None
            try:
                c0_ = self.read(st, ('lv', root, fpath))
                if isinstance(c0_, tuple) and c0_ and c0_[0] == 'iter' and merged1 is not None:
                    c1_ = self.read(merged1, ('lv', root, fpath))
                    if isinstance(c1_, tuple) and c1_ and c1_[0] == 'iter' and c1_[1] == c0_[1]:
                        itw = c0_[1]
            except Exception:
                itw = None
            if itw is not None:
                # an iterator that stays inside one container: the carried quantity is its position
                iter_wrapped[(root, fpath)] = itw
                self.write_nolog(s2, ('lv', root, fpath), ('iter', itw, pre))
            else:
                self.write_nolog(s2, ('lv', root, fpath), pre)
            if disc is not None and disc['kind'] == 'size' and ('lv', root, fpath) == disc['vec']:
                T.SIZES[pre] = isym
        setup(s2)
        neff = len(self.effects)
        if hdr is None:
            ls.regular = False
        if disc is not None:
            self.eval(s2, s.k[1] if s.op == 'for' else s.k[0])
        comps = self.exec_block([body], 0, s2)
        if disc is not None and s.op == 'for' and s.k[2] is not None:
            for c in comps:
                if c.kind in ('fall', 'cont'):
                    self.eval(c.state, s.k[2])
        ls.effects = self.effects[neff:]
        del self.effects[neff:]
        ls.exits = [(c.kind, tuple(c.state.pc), c.val) for c in comps]
        irregular = [c for c in comps if c.kind not in ('fall', 'cont')]
        if irregular:
            ls.regular = False
            ls.why = 'exit inside loop body (%s)' % ','.join(sorted(set(c.kind for c in irregular)))
        live = [c for c in comps if c.kind in ('fall', 'cont')]
        if live:
            merged = self.merge([c.state for c in live], ())
        else:
            merged = s2
        # lock-step counters: a carried integer (or iterator position) that advances by a constant on
        # every path is a function of the loop index; resolve it before the idioms are matched, so
        # that `v[k]` / `*it` with a second counter k / it is an access at the loop index
        affine = {}
        if ls.regular and lo is not None and isym is not None:
            for (root, fpath), (label, pre) in pres.items():
                lv = ('lv', root, fpath)
                try:
                    nx_ = self.read(merged, lv)
                    x0_ = self.read(st, lv)
                except Exception:
                    continue
                itw = iter_wrapped.get((root, fpath))
                if itw is not None:
                    if not (isinstance(nx_, tuple) and nx_ and nx_[0] == 'iter' and nx_[1] == itw):
                        continue
                    nx_, x0_ = nx_[2], x0_[2]
                if not isinstance(nx_, tuple) or not occurs(nx_, pre):
                    continue
                d_ = T.diff(nx_, pre)
                if is_num(d_) and d_[1].denominator == 1 and d_[1] != 0:
                    affine[pre] = add(x0_, mul(d_, sub(isym, lo)))
        if affine:
            aff_roots = set(root for (root, fpath), (label, pre) in pres.items() if pre in affine)
            for key_ in list(merged.env.keys()):
                if key_ in aff_roots:
                    continue      # the counter itself stays a reduction over its placeholder
                v_ = merged.env[key_]
                if isinstance(v_, tuple):
                    merged.env[key_] = subst(v_, affine)
            ls.effects = [subst_effect(e_, affine) for e_ in ls.effects]
            ls.exits = [(k_, tuple(subst(c_, affine) for c_ in pc_), subst(v_, affine) if isinstance(v_, tuple) else v_)
                        for k_, pc_, v_ in ls.exits]
        # classify every carried location
        all_pres = set(p for _, p in pres.values())
        for (root, fpath), (label, pre) in pres.items():
            lv = ('lv', root, fpath)
            nxt = self.read(merged, lv)
            x0 = self.read(st, lv)
            itw = iter_wrapped.get((root, fpath))
            if itw is not None:
                if isinstance(nxt, tuple) and nxt and nxt[0] == 'iter' and nxt[1] == itw:
                    nxt, x0 = nxt[2], x0[2]
                else:
                    nxt = ('havoc-iter', nxt, pre)
            info = {'loc': lv, 'pre': pre, 'next': nxt, 'init': x0, 'label': label, 'iter_over': itw}
            if not ls.regular:
                info['kind'] = 'havoc'
                info['final'] = ('havoc', ls.id, label)
            else:
                self.classify(ls, info, isym, lo, hi, all_pres, pres)
            ls.updates[label] = info
            if disc is not None and disc['kind'] == 'size' and lv == disc['vec'] and \
                    not (info.get('kind') == 'append' and info.get('guard', TRUE) == TRUE and
                         not (isinstance(info.get('body'), tuple) and info['body'][:1] == ('tuple',))):
                raise AnalysisBroken('loop at %s: the container whose size bounds the loop does not grow by '
                                     'exactly one element per iteration' % s.where())
        # second step: substitute placeholders of element-wise maps / inits in reductions
        submap = {}
        for info in ls.updates.values():
            if info['kind'] == 'map':
                submap[('sel', info['pre'], isym)] = sel(info['init'], isym)
        # a reduction variable read inside another body is the exclusive prefix of that reduction
        changed = True
        rounds = 0
        while changed and rounds < 4:
            changed = False
            rounds += 1
            for info in ls.updates.values():
                if info['kind'] in ('sum', 'prod') and info['pre'] not in submap:
                    b0 = subst(info['body'], submap)
                    if not contains(b0, lambda t: t in all_pres):
                        kk = sym('%s<%s' % (isym[1], info['label']))
                        bk = subst(b0, {isym: kk})
                        if info['kind'] == 'sum':
                            submap[info['pre']] = add(info['init'], self.mk_sum(kk, lo, isym, bk))
                        else:
                            submap[info['pre']] = mul(info['init'], ('prod', kk, lo, isym, bk))
                        changed = True
                if info['kind'] in ('append', 'append2') and info['pre'] not in submap:
                    # a container that grows in every iteration and is read by another carried location (a
                    # scratch vector declared outside the loop and never cleared): at the start of iteration i it
                    # holds what iterations lo .. i-1 appended
                    b0 = subst(info['body'], submap)
                    g0 = subst(info.get('guard', TRUE), submap)
                    if not contains(b0, lambda t: t in all_pres) and not contains(g0, lambda t: t in all_pres):
                        kk = sym('%s<%s' % (isym[1], info['label']))
                        if info['kind'] == 'append':
                            submap[info['pre']] = ('vcomp', info['init'], kk, lo, isym, subst(g0, {isym: kk}),
                                                   subst(b0, {isym: kk}))
                        else:
                            k2, lo2, hi2 = info['inner']
                            submap[info['pre']] = ('vcomp2', info['init'], kk, lo, isym, k2, subst(lo2, {isym: kk}),
                                                   subst(hi2, {isym: kk}), subst(g0, {isym: kk}), subst(b0, {isym: kk}))
                        changed = True
        for info in ls.updates.values():
            if info['kind'] in ('sum', 'prod', 'map', 'append', 'append2', 'last', 'scatter') and 'body' in info:
                b = subst(info['body'], submap)
                g = subst(info.get('guard', TRUE), submap)
                if contains(b, lambda t: t in all_pres) or contains(g, lambda t: t in all_pres):
                    info['kind'] = 'havoc'
                    info['why'] = 'depends on another loop-carried location'
                    info['final'] = ('havoc', ls.id, info['label'])
                    continue
                info['body'] = b
                info['guard'] = g
                info['final'] = self.final_value(ls, info, isym, lo, hi)
        for info in ls.updates.values():
            fin = info['final']
            if info.get('iter_over') is not None:
                fin = ('iter', info['iter_over'], fin)
            self.write(st, info['loc'], fin)
        if ls.effects:
            self.effect(st, 'loop', loop=ls.id, idx=isym, lo=lo, hi=hi, body=ls.effects,
                        where=s.where())
        rets = [c for c in irregular if c.kind in ('ret', 'throw')]
        if rets:
            # the loop may return / throw: approximate by both continuing and returning
            out = []
            for c in rets:
                sc = st.copy()
                sc.pc = st.pc + (('loopexit', ls.id, self.rel(c.state.pc, ())),)
                val = c.val
                out.append(Completion(c.kind, sc, val))
            out.append(Completion('fall', st))
            return out
        return None

    def write_nolog(self, st, lv, val):
        old = self.writelog
        self.writelog = None
        try:
            self.write(st, lv, val)
        finally:
            self.writelog = old

    def loop_var_name(self, s):
        if s.op == 'rangefor':
            return s.a.get('name') or 'k'
        if s.op == 'for' and s.k[0] is not None and s.k[0].op == 'decl':
            return s.k[0].a.get('name') or 'i'
        return 'i'

    def loc_label(self, st, root, fpath):
        if isinstance(root, tuple):
            name = root[-1]
        else:
            name = self.var_names.get(root, str(root)) if hasattr(self, 'var_names') else str(root)
        # try to recover the variable name from the function's declarations
        nm = self.lookup_name(root)
        if nm:
            name = nm
        return '.'.join([name] + [s[1] for s in fpath])

    def lookup_name(self, root):
        if isinstance(root, tuple):
            return root[-1]
        cache = getattr(self, '_names', None)
        if cache is None:
            cache = self._names = {}
        if root in cache:
            return cache[root]
        for fr in self.frames:
            f = fr.func
            for p in f.params:
                cache[p.id] = p.name
            if f.body is not None:
                for n in f.body.walk():
                    if n.op in ('decl', 'rangefor') and 'id' in n.a:
                        cache[n.a['id']] = n.a.get('name')
        return cache.get(root)

    def delta(self, nxt, pre, op):
        """g such that nxt == pre (op) g, or None."""
        if nxt == pre:
            return ZERO if op == '+' else ONE
        if isinstance(nxt, tuple):
            if nxt[0] == op:
                if nxt[1] == pre and not occurs(nxt[2], pre):
                    return nxt[2]
                if nxt[2] == pre and not occurs(nxt[1], pre):
                    return nxt[1]
                # left-nested chains: (pre + a) + b
                d = self.delta(nxt[1], pre, op)
                if d is not None and not occurs(nxt[2], pre):
                    return add(d, nxt[2]) if op == '+' else mul(d, nxt[2])
            if op == '+' and nxt[0] == '-' and not occurs(nxt[2], pre):
                d = self.delta(nxt[1], pre, op)
                if d is not None:
                    return sub(d, nxt[2])
            if op == '*' and nxt[0] == '/' and not occurs(nxt[2], pre):
                d = self.delta(nxt[1], pre, op)
                if d is not None:
                    return div(d, nxt[2])
            if nxt[0] == 'ite' and not occurs(nxt[1], pre):
                a = self.delta(nxt[2], pre, op)
                b = self.delta(nxt[3], pre, op)
                if a is not None and b is not None:
                    return ite(nxt[1], a, b)
        return None

    def classify(self, ls, info, isym, lo, hi, all_pres, pres):
        pre, nxt = info['pre'], info['next']
        if nxt == pre:
            info['kind'] = 'same'
            info['final'] = info['init']
            return
        # scalar reductions
        for op, kind in (('+', 'sum'), ('*', 'prod')):
            d = self.delta(nxt, pre, op)
            if d is not None:
                info['kind'] = kind
                info['body'] = d
                return
        # vector element-wise update at the loop index
        m = self.match_vupd(nxt, pre, isym)
        if m is not None:
            info['kind'] = 'map'
            info['body'] = m
            return
        sc = self.match_scatter(nxt, pre)
        if sc is not None:
            info['kind'] = 'scatter'
            info['cells'] = sc
            info['body'] = ('cells',) + tuple(('cell', i, g) for i, g in sc)
            return
        a = self.match_push(nxt, pre)
        if a is not None:
            info['kind'] = 'append'
            info['guard'], info['body'] = a
            return
        if isinstance(nxt, tuple) and nxt[0] == 'vscatter' and nxt[1] == pre:
            info['kind'] = 'accum'
            info['body'] = nxt
            info['final'] = ('vaccum', info['init'], isym, lo, hi, nxt)
            return
        if isinstance(nxt, tuple) and nxt[0] == 'vcomp' and nxt[1] == pre and \
                not any(occurs(x, pre) for x in nxt[2:] if isinstance(x, tuple)):
            # an inner loop appends a whole run per outer iteration
            info['kind'] = 'append2'
            info['inner'] = (nxt[2], nxt[3], nxt[4])
            info['guard'] = nxt[5]
            info['body'] = nxt[6]
            return
        if not contains(nxt, lambda t: t in all_pres):
            info['kind'] = 'last'
            info['body'] = nxt
            return
        # element-wise block copy `v[c + i] = w[a + i]` (w may be v itself): std::copy spelled as a loop
        if isinstance(nxt, tuple) and nxt[0] == 'vupd' and nxt[1] == pre and isinstance(nxt[3], tuple) and \
                nxt[3][0] == 'sel' and (nxt[3][1] == pre or not contains(nxt[3][1], lambda t: t in all_pres)):
            c_ = T.offset_from(nxt[2], isym)
            a_ = T.offset_from(nxt[3][2], isym)
            if c_ is not None and a_ is not None and not occurs(c_, isym) and not occurs(a_, isym) and \
                    not contains(c_, lambda t: t in all_pres) and not contains(a_, lambda t: t in all_pres) and \
                    T.canon(c_) != T.canon(a_):
                src = info['init'] if nxt[3][1] == pre else nxt[3][1]
                info['kind'] = 'blockcopy'
                info['body'] = nxt
                info['final'] = ('vcopy', info['init'], add(c_, lo), src, add(a_, lo), add(a_, hi))
                return
        info['kind'] = 'havoc'
        info['why'] = 'no map/reduce/append idiom'
        info['final'] = ('havoc', ls.id, info['label'])
        if isinstance(nxt, tuple) and nxt[0] == 'vcopy' and nxt[1] == pre and \
                not any(occurs(x, pre) for x in (nxt[2], nxt[4], nxt[5])):
            # one block copy per iteration (e.g. the first dimension replicated to the others): not an idiom
            # with a closed form here, but the rules can read the block parameters
            info['copy'] = {'dst': nxt[2], 'src': nxt[3], 'self': nxt[3] == pre, 'a': nxt[4], 'b': nxt[5]}
        try:
            # a body that only overwrites elements keeps the size of the container
            if size(nxt) == size(pre) and size(pre) != ('size', pre):
                T.SIZES[info['final']] = size(info['init'])
            elif size(nxt) == ('size', pre):
                T.SIZES[info['final']] = size(info['init'])
        except Exception:
            pass

    def match_vupd(self, nxt, pre, isym):
        """nxt == vupd(pre, isym, val) possibly under ite; returns val (in terms of sel(pre,i))."""
        if isinstance(nxt, tuple):
            if nxt[0] == 'vupd' and nxt[1] == pre and nxt[2] == isym:
                val = nxt[3]
                # val may mention pre only as sel(pre, isym)
                probe = subst(val, {('sel', pre, isym): sym('__elem__')})
                if occurs(probe, pre):
                    return None
                return val
            if nxt[0] == 'ite' and not occurs(nxt[1], pre) or \
                    (nxt[0] == 'ite' and not occurs(subst(nxt[1], {('sel', pre, isym): sym('__e')}), pre)):
                a = nxt[2]
                b = nxt[3]
                va = sel(pre, isym) if a == pre else self.match_vupd(a, pre, isym)
                vb = sel(pre, isym) if b == pre else self.match_vupd(b, pre, isym)
                if va is not None and vb is not None:
                    return ite(nxt[1], va, vb)
        return None

    def match_scatter(self, nxt, pre):
        """nxt == pre with cells updated as cell += g (any index): returns [(idx, g)]."""
        cells = []
        cur = nxt
        chain = []
        while isinstance(cur, tuple) and cur[0] == 'vupd':
            chain.append((cur[2], cur[3]))
            cur = cur[1]
        if cur != pre or not chain:
            return None
        chain.reverse()
        seen = []
        for idx, val in chain:
            if occurs(idx, pre):
                return None
            if idx in seen:
                return None
            seen.append(idx)
            # the value read is the cell before this update; earlier updates in the chain touch
            # other indices, so that sel() may have become an ite: compare against the plain read
            d = self.delta(val, ('sel', pre, idx), '+')
            if d is None:
                # reading through earlier updates of numerically different cells
                d = self.delta(subst(val, {}), sel(pre, idx), '+')
            if d is None or occurs(d, pre):
                return None
            cells.append((idx, d))
        return cells

    def match_push(self, nxt, pre):
        if isinstance(nxt, tuple):
            if nxt[0] == 'vpush' and nxt[1] == pre and not occurs(nxt[2], pre):
                return (TRUE, nxt[2])
            if nxt[0] == 'vpush':
                # several push_backs per iteration: vpush(vpush(pre, a), b)
                vals = []
                cur = nxt
                while isinstance(cur, tuple) and cur and cur[0] == 'vpush':
                    vals.append(cur[2])
                    cur = cur[1]
                if cur == pre and len(vals) > 1 and not any(occurs(v, pre) for v in vals):
                    return (TRUE, ('tuple',) + tuple(reversed(vals)))
            if nxt[0] == 'ite' and not occurs(nxt[1], pre):
                if nxt[3] == pre:
                    m = self.match_push(nxt[2], pre)
                    if m and m[0] == TRUE:
                        return (nxt[1], m[1])
                if nxt[2] == pre:
                    m = self.match_push(nxt[3], pre)
                    if m and m[0] == TRUE:
                        return (lnot(nxt[1]), m[1])
        return None

    def mk_sum(self, k, lo, hi, body):
        if body == ZERO:
            return ZERO
        if not occurs(body, k):
            return mul(body, sub(hi, lo))
        return ('sum', k, lo, hi, body)

    def final_value(self, ls, info, isym, lo, hi):
        k = info['kind']
        b = info['body']
        if k == 'sum':
            if b == ZERO:
                return info['init']
            return add(info['init'], self.mk_sum(isym, lo, hi, b))
        if k == 'prod':
            if b == ONE:
                return info['init']
            return mul(info['init'], ('prod', isym, lo, hi, b))
        if k == 'map':
            return ('vmap', info['init'], isym, lo, hi, b)
        if k == 'append':
            return ('vcomp', info['init'], isym, lo, hi, info.get('guard', TRUE), b)
        if k == 'scatter':
            return ('vscatter', info['init'], isym, lo, hi, b)
        if k == 'append2':
            k2, lo2, hi2 = info['inner']
            return ('vcomp2', info['init'], isym, lo, hi, k2, lo2, hi2, info.get('guard', TRUE), b)
        if k == 'last':
            return ite(T.cmp('<', lo, hi), subst(b, {isym: sub(hi, ONE)}), info['init'])
        return ('havoc', ls.id, info['label'])

    # ------------------------------------------------------------------ expressions
    def cond(self, st, e):
        v = self.eval(st, e)
        return self.truth(v)

    def truth(self, v):
        if isinstance(v, tuple) and v[0] in ('bool', '<', '<=', '>', '>=', '==', '!=', 'and', 'or',
                                             'not', 'ite', 'truth'):
            return v
        if is_num(v):
            return TRUE if v[1] != 0 else FALSE
        if isinstance(v, tuple) and v[0] == 'fn' and v[1] in ('isfinite', 'isnan', 'isinf', 'signbit',
                                                              'empty', 'is_base_of'):
            return v
        if isinstance(v, tuple) and v[0] in ('sym', 'hcall', 'ext', 'ucall', 'fld', 'sel', 'pre', 'havoc', 'mres'):
            return ('truth', v)
        return ('truth', v)

    def eval_lv(self, st, e):
        """LValue of an expression, or None if it is not addressable in the model."""
        if e is None:
            return None
        op = e.op
        if op == 'var':
            vid = e.a['id']
            if vid in st.refs and vid not in st.env:
                return st.refs[vid]
            return LV(vid)
        if op == 'this':
            return None
        if op == 'mem':
            base = e.k[0]
            if base.op == 'this':
                tl = self.frames[-1].this_lv
                if tl is None:
                    return None
                return ('lv', tl[1], tl[2] + (('f', e.a['name']),))
            if e.a.get('arrow'):
                pv = self.eval(st, base)
                if isinstance(pv, tuple) and pv[0] == 'ptr':
                    return ('lv', pv[1][1], pv[1][2] + (('f', e.a['name']),))
                if isinstance(pv, tuple) and pv[0] == 'iter' and is_lv(pv[1]):
                    return ('lv', pv[1][1], pv[1][2] + (('i', pv[2]), ('f', e.a['name'])))
                return None
            bl = self.eval_lv(st, base)
            if bl is None:
                return None
            return ('lv', bl[1], bl[2] + (('f', e.a['name']),))
        if op == 'opcall' and e.a.get('opname') == 'operator[]' and len(e.k) == 2:
            bl = self.eval_lv(st, e.k[0])
            if bl is None:
                bv = self.eval(st, e.k[0])
                if isinstance(bv, tuple) and bv and bv[0] == 'iter' and is_lv(bv[1]):
                    return ('lv', bv[1][1], bv[1][2] + (('i', add(bv[2], self.eval(st, e.k[1]))),))
                return None
            if 'iterator' in ir.strip_cvref(e.k[0].ty or ''):
                # it[k] for an iterator into a container: element it.position + k
                try:
                    bv = self.read(st, bl)
                except Exception:
                    bv = None
                if isinstance(bv, tuple) and bv and bv[0] == 'iter' and is_lv(bv[1]):
                    return ('lv', bv[1][1], bv[1][2] + (('i', add(bv[2], self.eval(st, e.k[1]))),))
            return ('lv', bl[1], bl[2] + (('i', self.eval(st, e.k[1])),))
        if op == 'index':
            bl = self.eval_lv(st, e.k[0])
            if bl is None:
                return None
            try:
                bv = self.read(st, bl)
            except Exception:
                bv = None
            if isinstance(bv, tuple) and bv and bv[0] == 'iter' and is_lv(bv[1]):
                # p[k] for a pointer / iterator p into a container: element p.position + k
                return ('lv', bv[1][1], bv[1][2] + (('i', add(bv[2], self.eval(st, e.k[1]))),))
            return ('lv', bl[1], bl[2] + (('i', self.eval(st, e.k[1])),))
        if op == 'lvref':
            return e.a['lv']
        if op == 'mcall' and e.a.get('name') in ('at', 'front', 'back') and \
                is_vector_type(e.a.get('objtype')):
            bl = self.eval_lv(st, e.k[0])
            if bl is None:
                return None
            vec = self.read(st, bl)
            if e.a['name'] == 'at':
                idx = self.eval(st, e.k[1])
            elif e.a['name'] == 'front':
                idx = ZERO
            else:
                idx = sub(size(vec), ONE)
            if self.record_access:
                self.effect(st, 'access', how=e.a['name'], size=size(vec), index=idx, where=e.where(),
                            node=e.cid, func=self.frames[-1].func.qualname if self.frames else None)
            return ('lv', bl[1], bl[2] + (('i', idx),))
        if op == 'cast' and e.a.get('kind') in ('const_cast', 'dynamic_cast', 'BaseToDerived'):
            return self.eval_lv(st, e.k[0])
        if op == 'un' and e.a['o'] == '*':
            pv = self.eval(st, e.k[0])
            if isinstance(pv, tuple) and pv[0] == 'ptr':
                return pv[1]
            if isinstance(pv, tuple) and pv[0] == 'iter' and is_lv(pv[1]):
                return ('lv', pv[1][1], pv[1][2] + (('i', pv[2]),))
            return None
        if op == 'opcall' and e.a.get('opname') == 'operator*' and len(e.k) == 1:
            pv = self.eval(st, e.k[0])
            if isinstance(pv, tuple) and pv[0] == 'iter' and is_lv(pv[1]):
                return ('lv', pv[1][1], pv[1][2] + (('i', pv[2]),))
            return None
        if op in ('assign',):
            self.eval(st, e)
            return self.eval_lv(st, e.k[0])
        if op == 'un' and e.a['o'] in ('++', '--') and not e.a.get('postfix'):
            self.eval(st, e)
            return self.eval_lv(st, e.k[0])
        if op == 'mcall' and e.a.get('hep'):
            # call returning a reference: follow trivial accessors `return member_;`
            f = self.p.funcs.get(e.a['id'])
            if f is not None and f.body is not None and f.ret_type and is_ref(f.ret_type):
                body = [x for x in f.body.k if x is not None and x.op not in ('null',)]
                if len(body) == 1 and body[0].op == 'return' and body[0].k and \
                        body[0].k[0].op == 'mem' and body[0].k[0].k[0].op == 'this':
                    bl = self.eval_lv(st, e.k[0])
                    if bl is not None:
                        return ('lv', bl[1], bl[2] + (('f', body[0].k[0].a['name']),))
            return None
        if op == 'cond':
            return None
        return None

    def eval(self, st, e):
        if e is None:
            return None
        m = getattr(self, 'e_' + e.op, None)
        if m is None:
            raise AnalysisBroken('cannot lower expression kind %s at %s' % (e.op, e.where()))
        return m(st, e)

    def e_lit(self, st, e):
        v = e.a.get('value')
        if e.a.get('string'):
            return ('str', v)
        if e.a.get('char'):
            return ('chr', v)
        if isinstance(v, bool):
            return TRUE if v else FALSE
        if e.a.get('valueinit'):
            t = ir.strip_cvref(e.ty or '')
            if ir.is_float_type(t) or ir.is_int_type(t):
                return ZERO
            if is_vector_type(t):
                return vempty()
            return ZERO
        if isinstance(v, float):
            txt = e.a.get('text')
            try:
                return ('num', Fraction(txt))
            except Exception:
                return ('num', Fraction(v))
        if isinstance(v, int):
            return ('num', Fraction(v))
        if v is None:
            return ('nullptr',)
        return ('const', str(v))

    def e_enum(self, st, e):
        return ('enum', e.a['name'])

    def e_var(self, st, e):
        vid = e.a['id']
        if e.a.get('probe'):
            return ('const', 'std::numeric_limits::' + '|'.join(e.a['probe']))
        if vid in st.env:
            return st.env[vid]
        if vid in st.refs:
            return self.read(st, st.refs[vid])
        name = e.a.get('name')
        if not self.p.is_hep(vid) and name in ('digits', 'digits10', 'max_digits10'):
            return ('const', 'std::numeric_limits::?' + name)
        if name in ('cout', 'cerr', 'clog'):
            return ('stream', 'std::' + name)
        return sym(name)

    def e_this(self, st, e):
        tl = self.frames[-1].this_lv
        return ('ptr', tl)

    def e_mem(self, st, e):
        lv = self.eval_lv(st, e)
        if lv is not None:
            return self.read(st, lv)
        base = self.eval(st, e.k[0])
        if isinstance(base, tuple) and base[0] == 'ptr' and base[1] is not None:
            return self.read(st, ('lv', base[1][1], base[1][2] + (('f', e.a['name']),)))
        if isinstance(base, tuple) and base[0] == 'iter':
            vec = self.read(st, base[1]) if is_lv(base[1]) else base[1]
            return fld(sel(vec, base[2]), e.a['name'])
        return fld(base, e.a['name'])

    def e_fref(self, st, e):
        return ('fref', e.a['name'], e.a['id'])

    def e_bin(self, st, e):
        o = e.a['o']
        if o == ',':
            self.eval(st, e.k[0])
            return self.eval(st, e.k[1])
        if o in ('&&', '||'):
            a = self.cond(st, e.k[0])
            b = self.cond(st, e.k[1])
            return land(a, b) if o == '&&' else lor(a, b)
        a = self.eval(st, e.k[0])
        b = self.eval(st, e.k[1])
        return self.binop(o, a, b, e)

    def binop(self, o, a, b, e):
        integer = ir.is_int_type(e.ty) if e is not None else False
        if isinstance(a, tuple) and a[0] == 'iter':
            if o == '+':
                return ('iter', a[1], add(a[2], b))
            if o == '-':
                if isinstance(b, tuple) and b[0] == 'iter':
                    return sub(a[2], b[2])
                return ('iter', a[1], sub(a[2], b))
            if o in ('==', '!=', '<', '<=', '>', '>=') and isinstance(b, tuple) and b[0] == 'iter':
                return T.cmp(o, a[2], b[2])
        if o == '+':
            return add(a, b)
        if o == '-':
            return sub(a, b)
        if o == '*':
            return mul(a, b)
        if o == '/':
            return idiv(a, b) if integer else div(a, b)
        if o == '%':
            return imod(a, b)
        if o in ('<', '<=', '>', '>=', '==', '!='):
            return T.cmp(o, a, b)
        return ('binop', o, a, b)

    def e_assign(self, st, e):
        o = e.a['o']
        lv = self.eval_lv(st, e.k[0])
        rhs = self.eval(st, e.k[1])
        if lv is None:
            self.note('assignment to non-addressable %s at %s' % (ir.show(e.k[0]), e.where()))
            return rhs
        if o != '=':
            cur = self.read(st, lv)
            # the computation type of a compound assignment is the type of the rhs-promoted
            # operation; integer division only if both sides are integers
            fake = N('bin', ty=e.a.get('computeType') or e.k[0].ty)
            rhs = self.binop(o[:-1], cur, rhs, fake)
        self.write(st, lv, rhs)
        return rhs

    def e_un(self, st, e):
        o = e.a['o']
        if o in ('++', '--'):
            lv = self.eval_lv(st, e.k[0])
            cur = self.read(st, lv) if lv is not None else self.eval(st, e.k[0])
            if isinstance(cur, tuple) and cur[0] == 'iter':
                new = ('iter', cur[1], add(cur[2], ONE) if o == '++' else sub(cur[2], ONE))
            else:
                new = add(cur, ONE) if o == '++' else sub(cur, ONE)
            if lv is not None:
                self.write(st, lv, new)
            return cur if e.a.get('postfix') else new
        if o == '&':
            lv = self.eval_lv(st, e.k[0])
            if lv is not None:
                return ('ptr', lv)
            return ('addr', self.eval(st, e.k[0]))
        if o == '*':
            lv = self.eval_lv(st, e)
            if lv is not None:
                return self.read(st, lv)
            pv = self.eval(st, e.k[0])
            if isinstance(pv, tuple) and pv[0] == 'iter':
                return sel(pv[1], pv[2])
            return ('deref', pv)
        v = self.eval(st, e.k[0])
        if o == '-':
            return neg(v)
        if o == '+':
            return v
        if o == '!':
            return lnot(self.truth(v))
        return ('unop', o, v)

    def e_cond(self, st, e):
        c = self.cond(st, e.k[0])
        # arms are assumed free of side effects on shared state; evaluate on copies and merge
        s1 = st.copy()
        s1.pc = st.pc + (c,)
        a = self.eval(s1, e.k[1])
        s2 = st.copy()
        s2.pc = st.pc + (lnot(c),)
        b = self.eval(s2, e.k[2])
        m = self.merge([s1, s2], st.pc)
        st.env, st.refs = m.env, m.refs
        return ite(c, a, b)

    def e_cast(self, st, e):
        k = e.a.get('kind')
        v = self.eval(st, e.k[0])
        if k == 'FloatingToIntegral':
            if is_num(v):
                return ('num', Fraction(int(v[1])))
            self.effect(st, 'conv', operand=v, where=e.where(), node=e.cid, to=e.ty,
                        func=self.frames[-1].func.qualname if self.frames else None)
            return ('trunc', v)
        if k == 'FloatingCast' and e.a.get('narrowing') and not is_num(v):
            self.effect(st, 'fnarrow', operand=v, where=e.where(), node=e.cid, to=e.a.get('to'), frm=e.a.get('frm'),
                        implicit=e.a.get('implicit'),
                        func=self.frames[-1].func.qualname if self.frames else None)
        if k == 'IntegralCast' and not is_num(v):
            self.effect(st, 'narrow', operand=v, where=e.where(), node=e.cid, to=e.a.get('to'), frm=e.a.get('frm'),
                        func=self.frames[-1].func.qualname if self.frames else None)
        if k in ('IntegralToBoolean', 'FloatingToBoolean', 'PointerToBoolean'):
            return T.cmp('!=', v, ZERO) if not (isinstance(v, tuple) and v[0] in (
                'bool', '<', '<=', '>', '>=', '==', '!=', 'and', 'or', 'not')) else v
        return v

    def e_index(self, st, e):
        lv = self.eval_lv(st, e)
        if lv is not None:
            return self.read(st, lv)
        return sel(self.eval(st, e.k[0]), self.eval(st, e.k[1]))

    def e_initlist(self, st, e):
        return ('vlist',) + tuple(self.eval(st, x) for x in e.k)

    def e_lambda(self, st, e):
        return ('lambda', e.cid, e)

    def e_defaultarg(self, st, e):
        return sym('default')

    def e_assert(self, st, e):
        c = self.cond(st, e.k[0])
        self.effect(st, 'assert', cond=c, where=e.where())
        return ('void',)

    def e_throw(self, st, e):
        self.effect(st, 'throw', where=e.where())
        return ('throws',)

    def e_unknown(self, st, e):
        raise AnalysisBroken('unsupported construct %s at %s' % (e.a.get('kind'), e.where()))

    def e_block(self, st, e):
        raise AnalysisBroken('statement in expression position at %s' % e.where())

    # -- constructions
    def mark_moved(self, st, arg, e):
        """`T x(std::move(y))` / `x = std::move(y)` / passing std::move(y) to a by-value parameter: y is left in an
        unspecified state (for containers: empty).  The source becomes ('moved', type, where); reading it later is
        recorded as a `moved_read` effect."""
        ctype = e.a.get('ctype') or e.a.get('ftype') or ''
        if '&&' not in ctype:
            return
        a = arg
        while a is not None and a.op in ('cast', 'materialize', 'bindtemp', 'paren') and a.k:
            a = a.k[0]
        if a is None or a.op != 'call' or a.a.get('name') != 'move' or len(a.k) != 1:
            return
        src = self.eval_lv(st, a.k[0])
        if src is None:
            return
        t = ir.strip_cvref(a.k[0].ty or '')
        self.write(st, src, ('moved', t, e.where()))

    def e_construct(self, st, e):
        t = e.a.get('type') or ''
        args = e.k
        if e.a.get('copy') and len(args) == 1:
            v = self.eval(st, args[0])
            self.mark_moved(st, args[0], e)
            return v
        if is_vector_type(t):
            real = [a for a in args if a.op != 'defaultarg']
            if not real:
                if t.startswith('std::array'):
                    m = re.search(r',\s*(\d+)>$', t)
                    if not (e.a.get('zeroing') or e.a.get('listinit')) and \
                            not re.match(r'std::array<\s*(hep|std)::', t):
                        # default-initialised array of scalars: the elements are indeterminate
                        return ('undef', None, None)
                    return ('vzeros', num(int(m.group(1)))) if m else vempty()
                return vempty()
            vals = [self.eval(st, a) for a in real]
            if len(vals) == 1:
                if isinstance(vals[0], tuple) and vals[0][0] == 'vlist':
                    return vals[0]
                return ('vzeros', vals[0])
            if isinstance(vals[0], tuple) and vals[0][0] == 'iter':
                v0 = self.read(st, vals[0][1]) if is_lv(vals[0][1]) else vals[0][1]
                if vals[0][2] == ZERO and isinstance(vals[1], tuple) and vals[1][0] == 'iter' \
                        and vals[1][2] == size(v0):
                    return v0
                return ('vslice', v0, vals[0][2], vals[1][2] if isinstance(vals[1], tuple)
                        and vals[1][0] == 'iter' else vals[1])
            if isinstance(vals[0], tuple) and vals[0][0] == 'vlist':
                return vals[0]
            return ('vfill', vals[0], vals[1])
        if t.startswith('std::basic_string') or t == 'std::string':
            vals = [self.eval(st, a) for a in args if a.op != 'defaultarg']
            return vals[0] if vals else ('str', '')
        if 'ofstream' in t or 'ifstream' in t or 'fstream' in t:
            vals = [self.eval(st, a) for a in args if a.op != 'defaultarg']
            sid = self.fresh('fstream')
            self.effect(st, 'open', stream=sid, path=vals[0] if vals else None, type=t,
                        mode=vals[1] if len(vals) > 1 else None, where=e.where(), node=e.cid)
            return ('stream', sid)
        if 'stringstream' in t:
            return ('stream', self.fresh('sstream'))
        if t.startswith('__gnu_cxx::__normal_iterator'):
            vals = [self.eval(st, a) for a in args]
            return vals[0] if vals else ('iter', None, ZERO)
        rec = self.p.record_of_type(t) if 'hep::' in t or 'verif_driver' in t else None
        if rec is None:
            vals = [self.eval(st, a) for a in args if a.op != 'defaultarg']
            if len(vals) == 1 and not t.startswith('hep::'):
                # conversions such as std::function, std::initializer_list wrappers
                return ('conv', t, vals[0])
            return ('new', t) + tuple(vals)
        if strip_targs(rec.qualname) in self.opaque:
            vals = [self.snap(st, self.eval(st, a)) for a in args if a.op != 'defaultarg']
            res = ('new', rec.qualname, self.fresh('n')) + tuple(vals)
            self.effect(st, 'hcall', name=strip_targs(rec.qualname) + '::ctor', args=vals,
                        where=e.where(), node=e.cid, target=self.cur_target, rectype=rec.qualname,
                        result=res)
            return res
        ctor = self.p.ctor_for(rec, e.a.get('ctype'), len(args))
        tmp = self.new_temp(st, mkobj(rec.qualname, {}), 'obj')
        if ctor is None or ctor.body is None:
            if len(args) == 0:
                self.default_fields(st, tmp, rec)
                return self.read(st, tmp)
            vals = [self.eval(st, a) for a in args if a.op != 'defaultarg']
            self.note('unresolved constructor of %s at %s' % (t, e.where()))
            return ('new', rec.qualname) + tuple(vals)
        r = self.bind_and_run(st, ctor, args, tmp, e)
        val = self.read(st, tmp)
        st.env.pop(tmp[1], None)
        return val

    def default_fields(self, st, lv, rec):
        for f in rec.fields:
            t = ir.strip_cvref(f['type'] or '')
            if is_vector_type(t):
                self.write(st, ('lv', lv[1], lv[2] + (('f', f['name']),)), vempty())

    # -- calls
    def e_call(self, st, e):
        name = e.a.get('name')
        if e.a.get('indirect'):
            vals = [self.eval(st, a) for a in e.k]
            self.effect(st, 'ext', name='<indirect>', args=vals, where=e.where())
            return ('ext', self.fresh('indirect'))
        if e.a.get('hep'):
            f = self.p.funcs.get(e.a['id'])
            base = strip_targs(f.qualname) if f else name
            if f is None or f.body is None or base in self.opaque or \
                    (self.inline_filter and not self.inline_filter(f)):
                vals = [self.snap(st, self.eval(st, a)) for a in e.k]
                r = ('hcall', base) + tuple(vals)
                eff = self.effect(st, 'hcall', name=base, args=vals, where=e.where(), node=e.cid,
                                  targs=tuple(f.targs) if f else (), callee=e.a.get('id'), ref_lvs={})
                # non-const reference arguments may be written
                if f is not None:
                    for k_, (p, a) in enumerate(zip(f.params, e.k)):
                        if is_mut_ref(p.type) and not is_stream_type(p.type):
                            lv = self.eval_lv(st, a)
                            eff['ref_lvs'][k_] = lv
                            if lv is not None:
                                self.write(st, lv, ('hout', base, p.name, self.fresh('o')))
                return r
            return self.bind_and_run(st, f, e.k, None, e)
        return self.std_call(st, e, name)

    def std_call(self, st, e, name):
        args = e.k
        if name in MATH_FNS:
            vals = [self.eval(st, a) for a in args]
            if name in ('max', 'min') and not vals:
                return ('const', 'engine.' + name)
            return fn(name, *vals)
        if name == 'generate_canonical':
            glv = self.eval_lv(st, args[0])
            n = self.fresh('u')
            self.effect(st, 'draw', gen=glv, where=e.where(), node=e.cid, callee=e.a.get('id'),
                        probe=e.a.get('probe'))
            return ('rand', n) + tuple(self.loop_idx)
        if name == 'back_inserter' and len(args) == 1:
            blv = self.eval_lv(st, args[0])
            if blv is not None:
                return ('backins', blv, ir.strip_cvref(args[0].ty or ''))
        if name in ('forward', 'move', 'addressof') and len(args) == 1:
            if name == 'addressof':
                lv = self.eval_lv(st, args[0])
                return ('ptr', lv)
            return self.eval(st, args[0])
        if name == 'distance' and len(args) == 2:
            a = self.eval(st, args[0])
            b = self.eval(st, args[1])
            if isinstance(a, tuple) and a[0] == 'iter' and isinstance(b, tuple) and b[0] == 'iter':
                return sub(b[2], a[2])
            return ('distance', a, b)
        if name == 'next':
            a = self.eval(st, args[0])
            k = self.eval(st, args[1]) if len(args) > 1 and args[1].op != 'defaultarg' else ONE
            if isinstance(a, tuple) and a[0] == 'iter':
                return ('iter', a[1], add(a[2], k))
            return ('next', a)
        if name in ('lower_bound', 'upper_bound') and len(args) >= 3:
            a = self.eval(st, args[0])
            b = self.eval(st, args[1])
            v = self.eval(st, args[2])
            if isinstance(a, tuple) and a[0] == 'iter':
                vec = self.read(st, a[1]) if is_lv(a[1]) else a[1]
                return ('iter', a[1], (name, vec, a[2], b[2] if isinstance(b, tuple) and b[0] == 'iter' else b, v,
                                       len(args)))
            return (name, a, b, v)
        if name == 'partial_sum' and len(args) == 3:
            a = self.eval(st, args[0])
            b = self.eval(st, args[1])
            d = self.eval(st, args[2])
            if isinstance(a, tuple) and a[0] == 'iter' and isinstance(d, tuple) and d[0] == 'iter' \
                    and is_lv(d[1]):
                src = self.read(st, a[1]) if is_lv(a[1]) else a[1]
                self.write(st, d[1], ('vpsum', src, a[2], b[2] if isinstance(b, tuple) and b[0] == 'iter' else b, d[2]))
                return ('void',)
        if name == 'getline' and len(args) >= 2:
            s = self.eval(st, args[0])
            lv = self.eval_lv(st, args[1])
            self.effect(st, 'in', stream=s, how='getline', target=lv, where=e.where(), node=e.cid,
                        ty='string')
            if lv is not None:
                self.write(st, lv, ('input', self.fresh('line')))
            return s
        if name in ('rename', 'remove', 'fopen', 'fclose', 'fwrite', 'fsync', 'open', 'close',
                    'write', 'fflush', 'unlink'):
            vals = [self.eval(st, a) for a in args]
            self.effect(st, 'fs', name=name, args=vals, where=e.where(), node=e.cid)
            return ('ext', self.fresh(name))
        if name and name.startswith('MPI_'):
            vals = [self.eval(st, a) for a in args]
            self.effect(st, 'mpi', name=name, args=vals, argnodes=args, where=e.where(), node=e.cid)
            # out parameters
            for ai_, a in enumerate(args):
                if name == 'MPI_Allreduce' and ai_ == 1 and not (a.op == 'un' and a.a.get('o') == '&'):
                    # receive buffer given as a pointer value (v.data(), a pointer variable)
                    pv = vals[ai_]
                    if isinstance(pv, tuple) and pv and pv[0] == 'ptr' and is_lv(pv[1]):
                        lv = pv[1]
                        root_lv = ('lv', lv[1], lv[2][:-1]) if lv[2] and lv[2][-1][0] == 'i' else lv
                        cur = self.read(st, root_lv)
                        self.write(st, root_lv, ('allreduce', cur))
                    elif isinstance(pv, tuple) and pv and pv[0] == 'iter' and is_lv(pv[1]) and pv[2] == ZERO:
                        cur = self.read(st, pv[1])
                        self.write(st, pv[1], ('allreduce', cur))
                    continue
                if a.op == 'un' and a.a.get('o') == '&':
                    lv = self.eval_lv(st, a.k[0])
                    if lv is not None and name in ('MPI_Comm_rank', 'MPI_Comm_size'):
                        self.write(st, lv, sym(name[9:].lower() + '()'))
                    elif lv is not None and name == 'MPI_Allreduce':
                        # &buffer[0]: the whole buffer is reduced in place
                        root_lv = ('lv', lv[1], lv[2][:-1]) if lv[2] and lv[2][-1][0] == 'i' else lv
                        cur = self.read(st, root_lv)
                        self.write(st, root_lv, ('allreduce', cur))
            return ('ext', self.fresh(name))
        if name in ('setprecision', 'setw', 'setfill'):
            vals = [self.eval(st, a) for a in args]
            return ('manip', name) + tuple(vals)
        if name in ('generate', 'generate_n', 'for_each', 'fill', 'fill_n', 'transform') and len(args) >= 3:
            r_ = self.std_loop_algorithm(st, e, name, args)
            if r_ is not None:
                return r_
        # a callable with side effects on captured variables handed to an algorithm that is not executed as a loop
        # here: its effects would be lost silently
        for a_ in (args if name in ('for_each', 'generate', 'generate_n', 'for_each_n', 'all_of', 'any_of', 'none_of',
                                     'count_if', 'find_if', 'find_if_not', 'remove_if', 'replace_if') else ()):
            lam = a_
            while lam is not None and lam.op in ('cast', 'materialize', 'bindtemp', 'paren', 'construct') and lam.k:
                lam = lam.k[0]
            if lam is not None and lam.op == 'var':
                lv_ = self.eval(st, lam)
                lam = lv_[2] if isinstance(lv_, tuple) and lv_ and lv_[0] == 'lambda' else None
            if lam is not None and lam.op == 'lambda' and self.lambda_writes_captures(lam):
                raise AnalysisBroken('std::%s at %s is called with a callable that modifies captured variables; this '
                                     'use of the algorithm is not modelled' % (name, e.where()))
        if name in ('copy', 'copy_n') and len(args) == 3 and name == 'copy_n':
            a_ = self.eval(st, args[0])
            n_ = self.eval(st, args[1])
            d_ = self.eval(st, args[2])
            if all(isinstance(v_, tuple) and v_ and v_[0] == 'iter' for v_ in (a_, d_)) and is_lv(d_[1]):
                srcv = self.read(st, a_[1]) if is_lv(a_[1]) else a_[1]
                cur = self.read(st, d_[1])
                b2 = add(a_[2], n_)
                if d_[2] == ZERO and n_ == size(cur):
                    new = srcv if (a_[2] == ZERO and b2 == size(srcv)) else ('vslice', srcv, a_[2], b2)
                else:
                    new = ('vcopy', cur, d_[2], srcv, a_[2], b2)
                self.write(st, d_[1], new)
                self.effect(st, 'ext', name='std::copy_n', args=[a_, n_, d_], where=e.where(), node=e.cid)
                return ('ext', self.fresh('copy_n'))
        if name in ('copy', 'iota', 'stable_sort', 'sort', 'transform', 'fill', 'reverse'):
            vals = [self.eval(st, a) for a in args]
            # destination range is overwritten
            dst = None
            if name in ('copy',) and len(vals) == 3:
                dst = vals[2]
            elif name == 'transform' and len(vals) >= 4:
                dst = vals[2] if len(vals) == 4 else vals[3]
            elif name in ('iota', 'stable_sort', 'sort', 'fill', 'reverse'):
                dst = vals[0]
            if name == 'copy' and len(vals) == 3 and all(isinstance(v_, tuple) and v_ and v_[0] == 'iter'
                                                         for v_ in vals) and is_lv(dst[1]) and vals[0][1] == vals[1][1]:
                # element-wise copy of [a, b) of the source to position c.. of the destination
                a_, b_, c_ = vals
                srcv = self.read(st, a_[1]) if is_lv(a_[1]) else a_[1]
                cur = self.read(st, dst[1])
                n_ = T.diff(b_[2], a_[2])
                if c_[2] == ZERO and n_ == size(cur):
                    new = srcv if (a_[2] == ZERO and b_[2] == size(srcv)) else ('vslice', srcv, a_[2], b_[2])
                else:
                    new = ('vcopy', cur, c_[2], srcv, a_[2], b_[2])
                self.write(st, dst[1], new)
            elif isinstance(dst, tuple) and dst[0] == 'iter' and is_lv(dst[1]):
                cur = self.read(st, dst[1])
                self.write(st, dst[1], ('alg', name, self.fresh('a'), cur) + tuple(vals))
            self.effect(st, 'ext', name='std::' + name, args=vals, where=e.where(), node=e.cid)
            return ('ext', self.fresh(name))
        if name == 'infinity':
            return ('const', 'inf')
        if name in ('max', 'min', 'epsilon', 'lowest', 'quiet_NaN'):
            vals = [self.eval(st, a) for a in args]
            if vals:
                return fn(name, *vals)
            if name in ('max', 'min') and ir.is_int_type(e.ty):
                return ('const', 'engine.' + name)
            return ('const', 'limits::' + name + ':' + str(e.ty))
        if name in ('ws', 'endl', 'flush', 'scientific', 'fixed', 'hex', 'dec', 'boolalpha'):
            return ('manip', name)
        if name == 'eof':
            return ('const', 'eof')
        if name == 'eq_int_type' and len(args) == 2:
            return T.cmp('==', self.eval(st, args[0]), self.eval(st, args[1]))
        vals = [self.eval(st, a) for a in args]
        # unknown external function: havoc mutable reference arguments
        ptypes = split_params(e.a.get('ftype'))
        for i, a in enumerate(args):
            if i < len(ptypes) and is_mut_ref(ptypes[i]):
                lv = self.eval_lv(st, a)
                if lv is not None:
                    self.write(st, lv, ('extout', name, self.fresh('o')))
        self.effect(st, 'ext', name=name, args=vals, where=e.where(), node=e.cid)
        return ('ext', name, self.fresh('r')) + tuple(vals)

    def e_mcall(self, st, e):
        name = e.a.get('name')
        objnode = e.k[0]
        args = e.k[1:]
        objtype = ir.strip_cvref(e.a.get('objtype') or objnode.ty or '')
        if e.a.get('arrow'):
            objtype = re.sub(r'\s*\*$', '', objtype)
        if e.a.get('hep'):
            return self.hep_mcall(st, e, name, objnode, args)
        if is_vector_type(objtype):
            return self.vec_call(st, e, name, objnode, args)
        if is_stream_type(objtype):
            return self.stream_call(st, e, name, objnode, args)
        if objtype.startswith('std::basic_string') or objtype == 'std::string':
            v = self.eval(st, objnode)
            if name in ('c_str', 'data'):
                return v
            if name in ('size', 'length'):
                return ('size', v)
            if name == 'empty':
                return T.cmp('==', ('size', v), ZERO)
            vals = [self.eval(st, a) for a in args]
            if name in ('erase', 'append', 'push_back', 'pop_back', 'resize', 'clear', 'insert', 'replace', 'assign',
                        'swap', 'shrink_to_fit', 'reserve') and name not in ('reserve', 'shrink_to_fit'):
                # mutating member: the string object itself changes
                slv = self.eval_lv(st, objnode)
                nv = ('str', '') if name == 'clear' else ('strop', name, v) + tuple(vals)
                if slv is not None:
                    self.write(st, slv, nv)
                return nv
            return ('strop', name, v) + tuple(vals)
        if name == 'discard':
            glv = self.eval_lv(st, objnode)
            vals = [self.eval(st, a) for a in args]
            self.effect(st, 'discard', gen=glv, n=vals[0] if vals else None, where=e.where(),
                        node=e.cid)
            return ('void',)
        if name in ('max', 'min') and not args:
            return ('const', 'engine.' + name)
        # user functor / unknown library object
        obj = self.eval(st, objnode)
        vals = [self.eval(st, a) for a in args]
        self.effect(st, 'ext', name='%s::%s' % (objtype, name), args=[obj] + vals, where=e.where(),
                    node=e.cid)
        return ('mres', objtype, name, self.fresh('m'))

    def dynamic_type(self, st, objnode, val):
        if isinstance(val, tuple) and val[0] == 'obj' and val[1]:
            return val[1]
        return None

    def hep_mcall(self, st, e, name, objnode, args):
        f = self.p.funcs.get(e.a['id'])
        if f is None:
            raise AnalysisBroken('unresolved hep member %s at %s' % (name, e.where()))
        # object: lvalue (so that writes propagate) or temporary
        if e.a.get('arrow'):
            pv = self.eval(st, objnode)
            if isinstance(pv, tuple) and pv[0] == 'ptr' and pv[1] is not None:
                this_lv = pv[1]
            elif isinstance(pv, tuple) and pv[0] == 'iter':
                if is_lv(pv[1]):
                    this_lv = ('lv', pv[1][1], pv[1][2] + (('i', pv[2]),))
                else:
                    this_lv = self.new_temp(st, sel(pv[1], pv[2]))
            else:
                this_lv = self.new_temp(st, ('deref', pv))
        else:
            this_lv = self.eval_lv(st, objnode)
            if this_lv is None:
                this_lv = self.new_temp(st, self.eval(st, objnode))
        # Base::method(...) called on *this from a member of a derived class is a qualified,
        # non-virtual call
        qualified = False
        if f.is_virtual and objnode.op == 'this' and self.frames and self.frames[-1].func is not None:
            cur = getattr(self.frames[-1].func, 'record', None)
            if cur is not None and f.record is not None and cur is not f.record:
                qualified = True
        # virtual dispatch on the dynamic type if it is known
        if f.is_virtual and not qualified:
            val = self.read(st, this_lv)
            dt = self.dynamic_type(st, objnode, val)
            if dt is not None:
                ov = self.find_override(dt, f)
                if ov is not None:
                    f = ov
            else:
                # dynamic type unknown: the call is kept symbolic
                base = strip_targs(f.qualname)
                vals = [self.eval(st, a) for a in args]
                self.effect(st, 'vcall', name=base, obj=val, args=vals, where=e.where(), node=e.cid)
                return ('vcall', base, val) + tuple(vals)
        base = strip_targs(f.qualname)
        if f.body is None or base in self.opaque or \
                (self.inline_filter and not self.inline_filter(f)):
            obj = self.read(st, this_lv)
            vals = [self.snap(st, self.eval(st, a)) for a in args]
            self.effect(st, 'hcall', name=base, obj=obj, args=vals, where=e.where(), node=e.cid,
                        this_lv=this_lv, const=f.is_const)
            if not f.is_const and not f.is_static:
                self.write(st, this_lv, ('hmut', base, obj, self.fresh('s')) + tuple(vals))
            return ('hcall', base, obj) + tuple(vals)
        return self.bind_and_run(st, f, args, this_lv, e)

    def find_override(self, typename, f):
        rec = self.p.record_of_type(typename)
        seen = 0
        while rec is not None and seen < 8:
            for m in rec.methods:
                if m.name == f.name and m.kind == 'method' and not m.is_pattern and \
                        m.body is not None and len(m.params) == len(f.params):
                    return m
            rec = self.p.record_of_type(rec.bases[0]) if rec.bases else None
            seen += 1
        return None

    def vec_call(self, st, e, name, objnode, args):
        lv = self.eval_lv(st, objnode)
        vec = self.read(st, lv) if lv is not None else self.eval(st, objnode)
        if name == 'size':
            return size(vec)
        if name == 'empty':
            return T.cmp('==', size(vec), ZERO)
        if name in ('at', 'front', 'back'):
            l2 = self.eval_lv(st, e)
            if l2 is not None:
                return self.read(st, l2)
            idx = self.eval(st, args[0]) if name == 'at' else (ZERO if name == 'front'
                                                                 else sub(size(vec), ONE))
            if self.record_access:
                self.effect(st, 'access', how=name, size=size(vec), index=idx, where=e.where(),
                            node=e.cid, func=self.frames[-1].func.qualname if self.frames else None)
            return sel(vec, idx)
        if name in ('begin', 'cbegin'):
            return ('iter', lv if lv is not None else vec, ZERO)
        if name in ('end', 'cend'):
            return ('iter', lv if lv is not None else vec, size(vec))
        if name in ('reserve', 'shrink_to_fit'):
            for a in args:
                self.eval(st, a)
            return ('void',)
        if name in ('push_back', 'emplace_back'):
            if name == 'push_back' or len(args) == 1 and self.elem_is_scalar(objnode):
                val = self.eval(st, args[0])
            else:
                val = self.emplace(st, e, objnode, args)
            if lv is not None:
                self.write(st, lv, ('vpush', vec, val))
            return ('void',)
        if name == 'insert' and len(args) == 3 and lv is not None:
            # v.insert(v.end(), n, value): n copies appended (the form of a counting loop of push_backs)
            pos = self.eval(st, args[0])
            if isinstance(pos, tuple) and pos and pos[0] == 'iter' and pos[2] == size(vec):
                n_ = self.eval(st, args[1])
                val = self.eval(st, args[2])
                if not (isinstance(n_, tuple) and n_ and n_[0] == 'iter'):
                    kk = sym(self.fresh('k@ins'))
                    self.write(st, lv, ('vcomp', vec, kk, ZERO, n_, TRUE, val))
                    return ('void',)
                if isinstance(val, tuple) and val and val[0] == 'iter' and val[1] == n_[1] and \
                        (vec == vempty() or size(vec) == ZERO):
                    # v.insert(v.end(), first, last) into an empty vector: the same as v.assign(first, last)
                    src = self.read(st, n_[1]) if is_lv(n_[1]) else n_[1]
                    self.write(st, lv, ('vslice', src, n_[2], val[2]))
                    return ('void',)
        if name == 'resize':
            vals = [self.eval(st, a) for a in args if a.op != 'defaultarg']
            if lv is not None:
                if vec == vempty() or size(vec) == ZERO:
                    new = ('vfill', vals[0], vals[1]) if len(vals) > 1 else ('vzeros', vals[0])
                else:
                    new = ('vresize', vec, vals[0])
                self.write(st, lv, new)
            return ('void',)
        if name == 'assign':
            vals = [self.eval(st, a) for a in args]
            if isinstance(vals[0], tuple) and vals[0][0] == 'iter':
                src = self.read(st, vals[0][1]) if is_lv(vals[0][1]) else vals[0][1]
                new = ('vslice', src, vals[0][2], vals[1][2] if isinstance(vals[1], tuple)
                       and vals[1][0] == 'iter' else vals[1])
            else:
                new = ('vfill', vals[0], vals[1])
            if lv is not None:
                self.write(st, lv, new)
            return ('void',)
        if name == 'erase':
            vals = [self.eval(st, a) for a in args]
            a = vals[0][2] if isinstance(vals[0], tuple) and vals[0][0] == 'iter' else vals[0]
            if len(vals) > 1:
                b = vals[1][2] if isinstance(vals[1], tuple) and vals[1][0] == 'iter' else vals[1]
            else:
                b = add(a, ONE)
            self.effect(st, 'erase', vec=lv, lo=a, hi=b, size=size(vec), where=e.where(), node=e.cid)
            if lv is not None:
                self.write(st, lv, ('verase', vec, a, b))
            return ('void',)
        if name == 'clear':
            if lv is not None:
                self.write(st, lv, vempty())
            return ('void',)
        if name == 'data':
            # pointer to the first element: behaves like begin() under +, +=, [], * (contiguous storage)
            return ('iter', lv, ZERO) if lv is not None else ('addr', vec)
        if name == 'fill':
            v = self.eval(st, args[0])
            if lv is not None:
                self.write(st, lv, ('vfill', size(vec), v))
            return ('void',)
        vals = [self.eval(st, a) for a in args]
        self.note('unmodelled vector member %s at %s' % (name, e.where()))
        return ('vecop', name, vec) + tuple(vals)

    def elem_is_scalar(self, objnode):
        t = ir.strip_cvref(objnode.ty or '')
        m = re.match(r'^std::vector<(.*)>$', t)
        if not m:
            return True
        return not ('hep::' in m.group(1))

    def emplace(self, st, e, objnode, args):
        """emplace_back(args...): construct the element type from args."""
        t = ir.strip_cvref(objnode.ty or '')
        m = re.match(r'^std::vector<(.*)>$', t)
        et = m.group(1) if m else None
        # strip allocator argument if printed
        if et and ', std::allocator<' in et:
            et = et[:et.index(', std::allocator<')]
        rec = self.p.record_of_type(et) if et else None
        if rec is None:
            vals = [self.eval(st, a) for a in args]
            return ('new', et) + tuple(vals)
        cands = [c for c in rec.methods if c.kind == 'ctor' and not c.is_pattern and
                 c.body is not None and len(c.params) == len(args) and not c.is_implicit]
        if len(cands) > 1:
            # disambiguate by argument types
            def score(c):
                sc = 0
                for p, a in zip(c.params, args):
                    if self.p.canon(p.type) == self.p.canon(a.ty):
                        sc += 1
                return sc
            cands.sort(key=score, reverse=True)
            if len(args) == 1 and len(cands) > 1 and score(cands[0]) == score(cands[1]):
                cands = []
        if strip_targs(rec.qualname) in self.opaque:
            vals = [self.snap(st, self.eval(st, a)) for a in args]
            lvv = self.eval_lv(st, objnode)
            res = ('new', rec.qualname, self.fresh('n')) + tuple(vals)
            self.effect(st, 'hcall', name=strip_targs(rec.qualname) + '::ctor', args=vals,
                        where=e.where(), node=e.cid,
                        target=self.lv_label(lvv) if lvv is not None else None, rectype=rec.qualname,
                        result=res)
            return res
        if not cands:
            vals = [self.eval(st, a) for a in args]
            if len(vals) == 1 and isinstance(vals[0], tuple) and vals[0][0] == 'obj':
                return vals[0]
            return ('new', rec.qualname) + tuple(vals)
        tmp = self.new_temp(st, mkobj(rec.qualname, {}), 'obj')
        self.bind_and_run(st, cands[0], args, tmp, e)
        val = self.read(st, tmp)
        st.env.pop(tmp[1], None)
        return val

    def e_term(self, st, e):
        return e.a['term']

    def e_lvref(self, st, e):
        return self.read(st, e.a['lv'])

    def lambda_writes_captures(self, lam):
        local = set()
        for nd in lam.walk():
            if nd.op in ('decl', 'rangefor', 'param') and nd.a.get('id') is not None:
                local.add(nd.a['id'])
        for q in (lam.a.get('params') or []):
            qid = q.get('id') if isinstance(q, dict) else getattr(q, 'id', None)
            if qid:
                local.add(qid)
        for nd in lam.walk():
            tgt = None
            if nd.op == 'assign' and nd.k:
                tgt = nd.k[0]
            elif nd.op == 'un' and nd.a.get('o') in ('++', '--') and nd.k:
                tgt = nd.k[0]
            elif nd.op == 'mcall' and nd.a.get('name') in ('push_back', 'emplace_back', 'clear', 'resize', 'insert',
                                                              'erase', 'pop_back', 'assign') and nd.k:
                tgt = nd.k[0]
            if tgt is None:
                continue
            while tgt is not None and tgt.op in ('index', 'mem', 'opcall', 'cast', 'paren', 'mcall') and tgt.k:
                tgt = tgt.k[0]
            if tgt is not None and tgt.op == 'var' and tgt.a.get('id') not in local:
                return True
            if tgt is not None and tgt.op == 'this':
                return True
        return False

    def std_loop_algorithm(self, st, e, name, args):
        """std::generate / generate_n / for_each / fill / fill_n / unary transform over a range of an
        addressable container with an inlinable callable: executed as the equivalent counting loop
        (same element order), so that draws and element-wise updates are seen by the loop summaries.
        Returns None when the call does not have that shape (the caller falls back to the opaque
        model)."""
        a = self.eval(st, args[0])
        if name == 'fill_n' and isinstance(a, tuple) and a and a[0] == 'backins' and len(args) == 3:
            # std::fill_n(std::back_inserter(v), n, x): n copies appended, like v.insert(v.end(), n, x)
            n_ = self.eval(st, args[1])
            val = self.eval(st, args[2])
            cur = self.read(st, a[1])
            kk = sym(self.fresh('k@fill'))
            self.write(st, a[1], ('vcomp', cur, kk, ZERO, n_, TRUE, val))
            return ('ext', self.fresh(name))
        if name == 'generate_n' and isinstance(a, tuple) and a and a[0] == 'backins' and len(args) == 3:
            # std::generate_n(std::back_inserter(v), n, f): n times v.push_back(f())
            fv = self.eval(st, args[2])
            if not (isinstance(fv, tuple) and fv and fv[0] == 'lambda'):
                return None
            self._synth = getattr(self, '_synth', 0) + 1
            vid = 'k%d@%s' % (self._synth, e.cid)
            loc = e.loc
            n_ = self.eval(st, args[1])
            call = N('opcall', [args[2]], loc=loc, cid=e.cid, opname='operator()')
            push = N('mcall', [N('lvref', lv=a[1], loc=loc, ty=a[2]), call], loc=loc, cid=e.cid, name='push_back',
                     objtype=a[2], hep=False)
            init = N('decl', [N('term', term=ZERO, loc=loc, ty='unsigned long')], loc=loc, id=vid, name='k',
                     type='unsigned long')
            kv = N('var', ty='unsigned long', loc=loc, id=vid, name='k')
            cond = N('bin', [kv, N('term', term=n_, loc=loc, ty='unsigned long')], loc=loc, o='!=', ty='bool')
            inc = N('un', [N('var', ty='unsigned long', loc=loc, id=vid, name='k')], loc=loc, o='++')
            loop = N('for', [init, cond, inc, N('block', [N('expr', [push], loc=loc)], loc=loc)], loc=loc,
                     cid='synth%d@%s' % (self._synth, e.cid))
            if self.exec_loop(st, loop) is not None:
                raise AnalysisBroken('callable handed to std::generate_n leaves the loop at %s' % e.where())
            return ('ext', self.fresh(name))
        if name in ('for_each', 'transform') and isinstance(a, tuple) and a and a[0] in ('sym', 'pre') and len(args) > 1:
            # a read-only range given by two opaque iterators (unbound iterator parameters): elements of an abstract
            # sequence of length distance(first, last)
            b0 = self.eval(st, args[1])
            if isinstance(b0, tuple) and b0 and b0[0] in ('sym', 'pre'):
                rng = ('range', a, b0)
                T.SIZES[rng] = ('distance', a, b0)
                a = ('iter', rng, ZERO)
                self._opaque_range_end = (args[1], ('iter', rng, ('distance', a[1][1], b0)))
        if not (isinstance(a, tuple) and a and a[0] == 'iter' and
                (is_lv(a[1]) or (name in ('for_each', 'transform') and isinstance(a[1], tuple)))):
            return None
        base = a[1]
        lo = a[2]
        if name in ('generate_n', 'fill_n'):
            hi = add(lo, self.eval(st, args[1]))
            rest = args[2:]
        else:
            b = self.eval(st, args[1])
            ore = getattr(self, '_opaque_range_end', None)
            if ore is not None and ore[0] is args[1]:
                b = ore[1]
                self._opaque_range_end = None
            if not (isinstance(b, tuple) and b and b[0] == 'iter' and b[1] == base):
                return None
            hi = b[2]
            rest = args[2:]
        self._synth = getattr(self, '_synth', 0) + 1
        vid = 'k%d@%s' % (self._synth, e.cid)
        loc = e.loc

        def var():
            return N('var', ty='unsigned long', loc=loc, id=vid, name='k')

        def elem(lv, off=None):
            idx = var() if off is None else N('bin', [var(), N('term', term=off, loc=loc, ty='unsigned long')],
                                               loc=loc, o='+', ty='unsigned long')
            if not is_lv(lv):
                # a range that is only read (elements of a container given by value / by iterator parameters)
                return N('index', [N('term', term=lv, loc=loc), idx], loc=loc)
            return N('index', [N('lvref', lv=lv, loc=loc), idx], loc=loc)

        def callf(fnode, fargs):
            fv = self.eval(st, fnode)
            if not (isinstance(fv, tuple) and fv and fv[0] == 'lambda'):
                return None
            return N('opcall', [fnode] + fargs, loc=loc, cid=e.cid, opname='operator()')
        if name in ('generate', 'generate_n'):
            c = callf(rest[0], [])
            if c is None:
                return None
            stmt = N('assign', [elem(base), c], loc=loc, o='=')
        elif name == 'for_each':
            c = callf(rest[0], [elem(base)])
            if c is None:
                return None
            stmt = c
        elif name in ('fill', 'fill_n'):
            stmt = N('assign', [elem(base), rest[0]], loc=loc, o='=')
        elif name == 'transform' and len(rest) == 2 and isinstance(self.eval(st, rest[0]), tuple) and \
                self.eval(st, rest[0])[:1] == ('backins',):
            d = self.eval(st, rest[0])
            c = callf(rest[1], [elem(base)])
            if c is None:
                return None
            stmt = N('mcall', [N('lvref', lv=d[1], loc=loc, ty=d[2]), c], loc=loc, cid=e.cid, name='push_back',
                     objtype=d[2], hep=False)
        elif name == 'transform' and len(rest) == 2:
            d = self.eval(st, rest[0])
            if not (isinstance(d, tuple) and d and d[0] == 'iter' and is_lv(d[1])):
                return None
            c = callf(rest[1], [elem(base)])
            if c is None:
                return None
            off = None if d[2] == lo else sub(d[2], lo)
            stmt = N('assign', [elem(d[1], off), c], loc=loc, o='=')
        else:
            return None
        init = N('decl', [N('term', term=lo, loc=loc, ty='unsigned long')], loc=loc, id=vid, name='k',
                 type='unsigned long')
        cond = N('bin', [var(), N('term', term=hi, loc=loc, ty='unsigned long')], loc=loc, o='!=', ty='bool')
        inc = N('un', [var()], loc=loc, o='++')
        loop = N('for', [init, cond, inc, N('block', [N('expr', [stmt], loc=loc)], loc=loc)], loc=loc,
                 cid='synth%d@%s' % (self._synth, e.cid))
        comps = self.exec_loop(st, loop)
        if comps is not None:
            raise AnalysisBroken('callable handed to std::%s leaves the loop at %s' % (name, e.where()))
        return ('ext', self.fresh(name))

    def stream_call(self, st, e, name, objnode, args):
        s = self.eval(st, objnode)
        vals = [self.eval(st, a) for a in args]
        if name in ('peek', 'get'):
            self.effect(st, 'in', stream=s, how=name, target=None, where=e.where(), node=e.cid)
            return ('mres', 'stream', name, self.fresh('c'))
        if name == 'ignore':
            self.effect(st, 'in', stream=s, how='ignore', args=vals, target=None, where=e.where(),
                        node=e.cid)
            return s
        if name in ('close', 'flush', 'open'):
            self.effect(st, 'streamop', stream=s, name=name, args=vals, where=e.where(), node=e.cid)
            return ('void',)
        if name in ('str',):
            return ('strof', s)
        if name in ('precision', 'setf', 'unsetf', 'flags', 'width'):
            self.effect(st, 'out', stream=s, item=('manip', name) + tuple(vals), where=e.where(),
                        node=e.cid, ty='manip')
            return ('mres', 'stream', name, self.fresh('c'))
        self.effect(st, 'streamop', stream=s, name=name, args=vals, where=e.where(), node=e.cid)
        return ('mres', 'stream', name, self.fresh('c'))

    def e_opcall(self, st, e):
        opn = e.a.get('opname')
        args = e.k
        if e.a.get('hep'):
            f = self.p.funcs.get(e.a['id'])
            if f is not None and f.body is not None and f.kind == 'method':
                this_lv = self.eval_lv(st, args[0])
                if this_lv is None:
                    this_lv = self.new_temp(st, self.eval(st, args[0]))
                base = strip_targs(f.qualname)
                if base in self.opaque:
                    obj = self.read(st, this_lv)
                    vals = [self.snap(st, self.eval(st, a)) for a in args[1:]]
                    self.effect(st, 'hcall', name=base, obj=obj, args=vals, where=e.where(),
                                node=e.cid, const=f.is_const)
                    return ('hcall', base, obj) + tuple(vals)
                if f.is_defaulted or f.is_implicit:
                    # defaulted copy/move assignment
                    if opn == 'operator=':
                        v = self.eval(st, args[1])
                        self.write(st, this_lv, v)
                        return v
                return self.bind_and_run(st, f, args[1:], this_lv, e)
            if opn == 'operator=' and len(args) == 2:
                lv = self.eval_lv(st, args[0])
                v = self.eval(st, args[1])
                if lv is not None:
                    self.write(st, lv, v)
                return v
        t0 = ir.strip_cvref(args[0].ty or '') if args else ''
        if opn == 'operator[]' and len(args) == 2:
            lv = self.eval_lv(st, e)
            if lv is not None:
                return self.read(st, lv)
            return sel(self.eval(st, args[0]), self.eval(st, args[1]))
        if opn == 'operator=' and len(args) == 2:
            lv = self.eval_lv(st, args[0])
            v = self.eval(st, args[1])
            self.mark_moved(st, args[1], e)
            if lv is not None:
                self.write(st, lv, v)
            return v
        if opn == 'operator<<' and len(args) == 2 and is_stream_type(t0):
            if args[1].op == 'fref' and args[1].a.get('hep'):
                # a library-defined manipulator `std::ostream& f(std::ostream&)`: `out << f` calls f(out)
                mf = self.p.funcs.get(args[1].a['id'])
                if mf is not None and mf.body is not None and len(mf.params) == 1 and \
                        is_stream_type(ir.strip_cvref(mf.params[0].type or '')) and \
                        strip_targs(mf.qualname) not in self.opaque:
                    s = self.eval(st, args[0])
                    self.bind_and_run(st, mf, [N('term', term=s, loc=e.loc, ty=args[0].ty)], self.frames[-1].this_lv, e)
                    return s
            s = self.eval(st, args[0])
            item = self.eval(st, args[1])
            self.effect(st, 'out', stream=s, item=item, where=e.where(), node=e.cid,
                        ty=ir.strip_cvref(args[1].ty or ''), argnode=args[1])
            return s
        if opn == 'operator>>' and len(args) == 2 and is_stream_type(t0):
            s = self.eval(st, args[0])
            if args[1].op == 'fref' or (args[1].ty or '').find('(') >= 0 and args[1].op == 'call':
                item = self.eval(st, args[1])
                self.effect(st, 'in', stream=s, how='manip', item=item, target=None,
                            where=e.where(), node=e.cid)
                return s
            if args[1].op == 'fref':
                return s
            lv = self.eval_lv(st, args[1])
            if lv is None:
                item = self.eval(st, args[1])
                self.effect(st, 'in', stream=s, how='manip', item=item, target=None,
                            where=e.where(), node=e.cid)
                return s
            self.effect(st, 'in', stream=s, how='>>', target=lv, where=e.where(), node=e.cid,
                        ty=ir.strip_cvref(args[1].ty or ''), label=self.lv_label(lv))
            self.write(st, lv, ('input', self.fresh('tok'), self.lv_label(lv)))
            return s
        if opn in ('operator++', 'operator--'):
            lv = self.eval_lv(st, args[0])
            cur = self.read(st, lv) if lv is not None else self.eval(st, args[0])
            d = ONE
            if isinstance(cur, tuple) and cur[0] == 'iter':
                new = ('iter', cur[1], add(cur[2], d) if opn == 'operator++' else sub(cur[2], d))
            else:
                new = add(cur, d) if opn == 'operator++' else sub(cur, d)
            if lv is not None:
                self.write(st, lv, new)
            return cur if len(args) > 1 else new
        if opn == 'operator*' and len(args) == 1:
            lv = self.eval_lv(st, e)
            if lv is not None:
                return self.read(st, lv)
            pv = self.eval(st, args[0])
            if isinstance(pv, tuple) and pv[0] == 'iter':
                return sel(pv[1], pv[2])
            return ('deref', pv)
        if opn == 'operator->' and len(args) == 1:
            return self.eval(st, args[0])
        if opn in ('operator==', 'operator!=', 'operator<', 'operator<=', 'operator>', 'operator>=',
                   'operator+', 'operator-') and len(args) == 2:
            a = self.eval(st, args[0])
            b = self.eval(st, args[1])
            return self.binop(opn[8:], a, b, e)
        if opn == 'operator+=' and len(args) == 2:
            lv = self.eval_lv(st, args[0])
            cur = self.read(st, lv) if lv is not None else self.eval(st, args[0])
            b = self.eval(st, args[1])
            new = self.binop('+', cur, b, e)
            if lv is not None:
                self.write(st, lv, new)
            return new
        if opn == 'operator()':
            fv = self.eval(st, args[0])
            if isinstance(fv, tuple) and fv[0] == 'lambda':
                lam = fv[2]
                if lam.k:
                    params = lam.a.get('params') or []
                    fake = type('F', (), {})()
                    fake.params = params
                    fake.body = lam.k[0]
                    fake.kind = 'function'
                    fake.inits = []
                    fake.record = None
                    fake.ret_type = None
                    fake.qualname = 'lambda'
                    for p in params:
                        if not hasattr(p, 'default'):
                            p.default = None
                    return self.bind_and_run(st, fake, args[1:], self.frames[-1].this_lv, e)
            # user functor: opaque, may write its non-const reference arguments
            vals = [self.eval(st, a) for a in args[1:]]
            ptypes = split_params(e.a.get('ftype'))
            outs = []
            uid = self.fresh('ucall')
            for i, a in enumerate(args[1:]):
                if i < len(ptypes) and is_mut_ref(ptypes[i]):
                    lv = self.eval_lv(st, a)
                    if lv is not None:
                        outs.append((i, lv))
            try:
                flv = self.eval_lv(st, args[0])
            except AnalysisBroken:
                flv = None
            self.effect(st, 'ucall', functor=t0, args=vals, argnodes=args[1:], where=e.where(),
                        node=e.cid, id=uid, outs=outs, functor_lv=flv)
            for i, lv in outs:
                self.write(st, lv, ('uout', uid, i))
            return ('ucall', uid, t0)
        vals = [self.eval(st, a) for a in args]
        self.effect(st, 'ext', name=opn, args=vals, where=e.where(), node=e.cid)
        return ('ext', opn, self.fresh('r')) + tuple(vals)

    def lv_label(self, lv):
        root = lv[1]
        nm = self.lookup_name(root) or str(root)
        parts = [nm]
        for s in lv[2]:
            if s[0] == 'f':
                parts.append(s[1])
            else:
                parts.append('[%s]' % T.pretty(s[1]))
        if parts[0] == 'this':
            parts = parts[1:]
        return '.'.join(parts)
