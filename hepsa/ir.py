"""Small typed IR lowered from clang's JSON AST.

Expressions (op):
  lit(value)            numeric / bool / string / char literal, T() value-initialisation
  enum(name)            enumerator
  var(id,name)          local variable or parameter
  this
  mem(base; name,id)    member access (base may be `this`)
  fref(id,name)         reference to a function (callee position)
  call(args; name,id,hep,probe)          free function call
  mcall(obj,args; name,id,hep)           member function call
  opcall(args; opname,id,hep)            overloaded operator call (args[0] is the object for members)
  bin(l,r; o) un(e; o,postfix) assign(l,r; o) cond(c,a,b)
  cast(e; kind)         value-changing or explicit casts only
  construct(args; type,id,hep,copy)      constructor call
  initlist(args) lambda(body; params,captures) index(base,idx)
  defaultarg(; )        use of a default argument (resolved through the callee's parameter)
  assert(cond)          assert() macro expansion
  throw(e) unknown(kind)
Statements:
  block(stmts) decl(init?; id,name,type) if(c,then,else?) for(init?,cond?,inc?,body)
  rangefor(range,body; id,name,type) while(c,body) do(body,c) return(e?) break continue
  expr(e) switch(c,body) case(v,sub) default(sub) null try(body, handlers...)
"""
import re

FLOATS = ('float', 'double', 'long double')


def strip_cvref(t):
    if t is None:
        return None
    t = t.strip()
    t = re.sub(r'\s*&&?$', '', t)
    t = re.sub(r'^const\s+', '', t)
    t = re.sub(r'\s+const$', '', t)
    return t.strip()


def is_float_type(t):
    return strip_cvref(t) in FLOATS


def is_int_type(t):
    t = strip_cvref(t)
    return t in ('int', 'unsigned int', 'long', 'unsigned long', 'long long', 'unsigned long long',
                 'short', 'unsigned short', 'char', 'unsigned char', 'signed char', 'bool',
                 'std::size_t', 'size_t')


def int_width(t):
    """width in bits of an integer type on the LP64 target of this build, or None"""
    t = (t or '').replace('const ', '').replace('volatile ', '').strip()
    table = {'bool': 1, 'char': 8, 'signed char': 8, 'unsigned char': 8, 'short': 16, 'unsigned short': 16,
             'int': 32, 'unsigned int': 32, 'unsigned': 32, 'long': 64, 'unsigned long': 64,
             'long long': 64, 'unsigned long long': 64}
    return table.get(t)


class N:
    __slots__ = ('op', 'k', 'a', 'ty', 'loc', 'cid')

    def __init__(self, op, kids=(), ty=None, loc=None, cid=None, **a):
        self.op = op
        self.k = list(kids)
        self.a = a
        self.ty = ty
        self.loc = loc
        self.cid = cid

    def __getattr__(self, name):
        # attribute access falls back to the attr dict
        if name.startswith('__'):
            raise AttributeError(name)
        try:
            return self.a[name]
        except KeyError:
            raise AttributeError(name)

    def get(self, name, default=None):
        return self.a.get(name, default)

    def __getstate__(self):
        return (self.op, self.k, self.a, self.ty, self.loc, self.cid)

    def __setstate__(self, s):
        self.op, self.k, self.a, self.ty, self.loc, self.cid = s

    def where(self):
        if not self.loc:
            return '?'
        f = self.loc[0] or '?'
        i = f.find('include/hep/')
        if i >= 0:
            f = f[i:]
        return '%s:%s' % (f, self.loc[1])

    @property
    def line(self):
        return self.loc[1] if self.loc else None

    def walk(self):
        """Pre-order traversal over all nodes (expressions and statements)."""
        stack = [self]
        while stack:
            n = stack.pop()
            yield n
            for c in reversed(n.k):
                if isinstance(c, N):
                    stack.append(c)

    def __repr__(self):
        return show(self)


def show(n, depth=0):
    """C-like rendering for reports."""
    if n is None:
        return ''
    if not isinstance(n, N):
        return str(n)
    op = n.op
    k = n.k
    s = show
    if op == 'lit':
        return str(n.a.get('value'))
    if op == 'enum':
        return str(n.a.get('name'))
    if op == 'var':
        return n.a.get('name') or '<anon>'
    if op == 'this':
        return 'this'
    if op == 'mem':
        if k and k[0].op == 'this':
            return n.a['name']
        return '%s.%s' % (s(k[0]), n.a['name'])
    if op == 'fref':
        return n.a.get('name')
    if op == 'call':
        return '%s(%s)' % (n.a.get('name'), ', '.join(s(x) for x in k))
    if op == 'mcall':
        return '%s.%s(%s)' % (s(k[0]), n.a.get('name'), ', '.join(s(x) for x in k[1:]))
    if op == 'opcall':
        o = n.a.get('opname', '').replace('operator', '')
        if o == '[]' and len(k) == 2:
            return '%s[%s]' % (s(k[0]), s(k[1]))
        if o == '()':
            return '%s(%s)' % (s(k[0]), ', '.join(s(x) for x in k[1:]))
        if len(k) == 2:
            return '(%s %s %s)' % (s(k[0]), o, s(k[1]))
        if len(k) == 1:
            return '%s%s' % (o, s(k[0]))
        return 'operator%s(%s)' % (o, ', '.join(s(x) for x in k))
    if op == 'bin':
        return '(%s %s %s)' % (s(k[0]), n.a['o'], s(k[1]))
    if op == 'assign':
        return '%s %s %s' % (s(k[0]), n.a['o'], s(k[1]))
    if op == 'un':
        if n.a.get('postfix'):
            return '%s%s' % (s(k[0]), n.a['o'])
        return '%s%s' % (n.a['o'], s(k[0]))
    if op == 'cond':
        return '(%s ? %s : %s)' % (s(k[0]), s(k[1]), s(k[2]))
    if op == 'cast':
        return '%s<%s>(%s)' % (n.a.get('kind'), n.ty, s(k[0]))
    if op == 'construct':
        return '%s{%s}' % (n.a.get('type'), ', '.join(s(x) for x in k))
    if op == 'initlist':
        return '{%s}' % ', '.join(s(x) for x in k)
    if op == 'index':
        return '%s[%s]' % (s(k[0]), s(k[1]))
    if op == 'lambda':
        return '[lambda@%s]' % n.where()
    if op == 'defaultarg':
        return '<default>'
    if op == 'assert':
        return 'assert(%s)' % s(k[0])
    if op == 'throw':
        return 'throw %s' % (s(k[0]) if k else '')
    if op == 'unknown':
        return '<%s>' % n.a.get('kind')
    # statements
    ind = '  ' * depth
    if op == 'block':
        return '{ ' + ' '.join(show(x, depth + 1) for x in k) + ' }'
    if op == 'decl':
        return '%s %s%s;' % (n.a.get('type'), n.a.get('name'), (' = ' + s(k[0])) if k else '')
    if op == 'if':
        r = 'if (%s) %s' % (s(k[0]), s(k[1]))
        if len(k) > 2 and k[2] is not None:
            r += ' else %s' % s(k[2])
        return r
    if op == 'for':
        return 'for (%s %s; %s) %s' % (s(k[0]), s(k[1]), s(k[2]), s(k[3]))
    if op == 'rangefor':
        return 'for (%s : %s) %s' % (n.a.get('name'), s(k[0]), s(k[1]))
    if op == 'while':
        return 'while (%s) %s' % (s(k[0]), s(k[1]))
    if op == 'do':
        return 'do %s while (%s);' % (s(k[0]), s(k[1]))
    if op == 'return':
        return 'return %s;' % (s(k[0]) if k else '')
    if op in ('break', 'continue'):
        return op + ';'
    if op == 'expr':
        return s(k[0]) + ';'
    if op == 'null':
        return ';'
    if op == 'switch':
        return 'switch (%s) %s' % (s(k[0]), s(k[1]))
    if op == 'case':
        return 'case %s: %s' % (s(k[0]), s(k[1]) if len(k) > 1 else '')
    if op == 'default':
        return 'default: %s' % (s(k[0]) if k else '')
    return '<%s>' % op


class Param:
    def __init__(self, id, name, type, default=None):
        self.id = id
        self.name = name
        self.type = type
        self.default = default

    def __repr__(self):
        return '%s %s' % (self.type, self.name)


TRANSPARENT_CASTS = {
    'LValueToRValue', 'NoOp', 'FunctionToPointerDecay', 'ArrayToPointerDecay',
    'ConstructorConversion', 'UserDefinedConversion', 'DerivedToBase', 'UncheckedDerivedToBase',
    'BuiltinFnToFnPtr', 'NullToPointer', 'BaseToDerived', 'ToVoid', 'BitCast',
    'AtomicToNonAtomic', 'LValueBitCast', 'Dependent',
}
VALUE_CASTS = {'FloatingToIntegral', 'IntegralToFloating', 'FloatingCast', 'IntegralCast',
               'IntegralToBoolean', 'FloatingToBoolean', 'PointerToBoolean', 'BooleanToSignedIntegral'}

STMT_KINDS = {'CompoundStmt', 'DeclStmt', 'IfStmt', 'ForStmt', 'CXXForRangeStmt', 'WhileStmt',
              'DoStmt', 'ReturnStmt', 'BreakStmt', 'ContinueStmt', 'SwitchStmt', 'CaseStmt',
              'DefaultStmt', 'NullStmt', 'CXXTryStmt', 'GotoStmt', 'LabelStmt', 'GCCAsmStmt',
              'MSAsmStmt', 'IndirectGotoStmt', 'CXXCatchStmt', 'AttributedStmt'}


class Lowerer:
    def __init__(self, prog):
        self.p = prog
        self.numeric = prog.numeric
        self.unknown = {}
        self.goto_sites = []
        self.cur = None

    # -- helpers --
    def ty(self, node):
        t = node.get('type')
        if not t:
            return None
        s = t.get('desugaredQualType') or t.get('qualType')
        if s is None:
            return None
        return s.replace('verif_driver::T', self.numeric).replace('verif_hep::T', self.numeric)

    def loc(self, node):
        return node.get('_b') or node.get('_loc')

    def mk(self, op, node, kids=(), **a):
        return N(op, kids, ty=self.ty(node), loc=self.loc(node), cid=node.get('id'), **a)

    def integral_cast(self, node, src, sub, implicit):
        """integer conversions are value-preserving and dropped, except conversions to a narrower
        type: those are kept as cast nodes (kind IntegralCast) with both widths"""
        def des(n):
            t = n.get('type') or {}
            return (t.get('desugaredQualType') or t.get('qualType') or '')
        ws, wt = int_width(des(src)), int_width(des(node))
        if ws and wt and wt < ws and wt > 1:
            return self.mk('cast', node, [sub], kind='IntegralCast', implicit=implicit, frm=des(src), to=des(node),
                           wfrom=ws, wto=wt)
        return sub

    def floating_cast(self, node, src, sub, implicit):
        def des(n):
            t = n.get('type') or {}
            return (t.get('desugaredQualType') or t.get('qualType') or '')
        wf = {'float': 32, 'double': 64, 'long double': 80}
        a = wf.get(des(src).replace('const ', '').strip())
        b = wf.get(des(node).replace('const ', '').strip())
        return self.mk('cast', node, [sub], kind='FloatingCast', implicit=implicit, frm=des(src), to=des(node),
                       narrowing=bool(a and b and b < a))

    def note_unknown(self, node):
        k = node.get('kind')
        self.unknown[k] = self.unknown.get(k, 0) + 1
        return self.mk('unknown', node, [self.expr(c) for c in node.get('inner', ())
                                           if isinstance(c, dict) and c.get('kind')
                                           and c.get('kind') not in STMT_KINDS], kind=k)

    # -- functions --
    def lower_func(self, f):
        o = f.raw
        self.cur = f
        params = []
        inits = []
        body = None
        for c in o.get('inner', ()):
            k = c.get('kind')
            if k == 'ParmVarDecl':
                default = None
                inner = [x for x in c.get('inner', ()) if x.get('kind') and not x['kind'].endswith('Comment')]
                if inner:
                    default = self.expr(inner[0])
                params.append(Param(c.get('id'), c.get('name'), self.ty(c), default))
            elif k == 'CXXCtorInitializer':
                inner = [x for x in c.get('inner', ()) if isinstance(x, dict) and x.get('kind')]
                e = self.expr(inner[0]) if inner else None
                if inner and inner[0].get('kind') == 'CXXDefaultInitExpr' and 'anyInit' in c and f.record is not None:
                    # default member initialiser: the expression written at the member's declaration
                    for fd in f.record.fields:
                        if fd['id'] == c['anyInit'].get('id') and fd.get('init_raw') is not None:
                            e = self.expr(fd['init_raw'])
                if 'anyInit' in c:
                    inits.append(('field', getattr(self.p, 'field_alias', {}).get(c['anyInit'].get('id'),
                                                                                   c['anyInit'].get('name')),
                                  c['anyInit'].get('id'), e))
                elif 'baseInit' in c:
                    bt = c['baseInit'].get('desugaredQualType') or c['baseInit'].get('qualType')
                    inits.append(('base', bt.replace('verif_driver::T', self.numeric), None, e))
                elif 'delegatingInit' in c:
                    inits.append(('delegate', None, None, e))
                else:
                    inits.append(('other', None, None, e))
            elif k in ('CompoundStmt', 'CXXTryStmt'):
                body = self.stmt(c)
        f.params = params
        f.inits = inits
        f.body = body
        m = re.match(r'^(.*?)\s*\(', f.type or '')
        f.ret_type = m.group(1) if m else None

    # -- statements --
    def stmt(self, node):
        if not node or 'kind' not in node:
            return None
        k = node['kind']
        inner = node.get('inner', [])
        if k == 'CompoundStmt':
            return self.mk('block', node, [self.stmt(c) for c in inner])
        if k == 'DeclStmt':
            decls = []
            for c in inner:
                if c.get('kind') == 'VarDecl':
                    init = [x for x in c.get('inner', ()) if isinstance(x, dict) and x.get('kind')
                            and not x['kind'].endswith('Comment')]
                    kids = [self.expr(init[0])] if init else []
                    decls.append(self.mk('decl', c, kids, id=c.get('id'), name=c.get('name'),
                                         type=self.ty(c), initstyle=c.get('init'),
                                         static=(c.get('storageClass') == 'static')))
                elif c.get('kind') in ('TypeAliasDecl', 'UsingDecl', 'TypedefDecl',
                                       'StaticAssertDecl', 'UsingDirectiveDecl'):
                    continue
                elif c.get('kind') in ('CXXRecordDecl', 'EnumDecl'):
                    continue
                else:
                    decls.append(self.note_unknown(c))
            if len(decls) == 1:
                return decls[0]
            return self.mk('block', node, decls, transparent=True)
        if k == 'IfStmt':
            parts = list(inner)
            pre = []
            if node.get('hasInit'):
                pre.append(self.stmt(parts.pop(0)))
            if node.get('hasVar'):
                pre.append(self.stmt(parts.pop(0)))
            cond = self.expr(parts[0])
            then = self.stmt(parts[1])
            els = self.stmt(parts[2]) if len(parts) > 2 else None
            r = self.mk('if', node, [cond, then, els])
            if pre:
                return self.mk('block', node, pre + [r])
            return r
        if k == 'ForStmt':
            # init, condvar, cond, inc, body
            init = self.stmt(inner[0]) if inner[0] else None
            cond = self.expr(inner[2]) if inner[2] else None
            inc = self.expr(inner[3]) if inner[3] else None
            body = self.stmt(inner[4])
            return self.mk('for', node, [init, cond, inc, body])
        if k == 'CXXForRangeStmt':
            # [init], range, begin, end, cond, inc, loopvar, body
            rng = inner[1]
            rv = [c for c in rng.get('inner', ()) if c.get('kind') == 'VarDecl'][0]
            rinit = [x for x in rv.get('inner', ()) if isinstance(x, dict) and x.get('kind')]
            range_expr = self.expr(rinit[0]) if rinit else None
            lv = [c for c in inner[-2].get('inner', ()) if c.get('kind') == 'VarDecl'][0]
            body = self.stmt(inner[-1])
            return self.mk('rangefor', node, [range_expr, body], id=lv.get('id'),
                           name=lv.get('name'), type=self.ty(lv))
        if k == 'WhileStmt':
            return self.mk('while', node, [self.expr(inner[-2]), self.stmt(inner[-1])])
        if k == 'DoStmt':
            return self.mk('do', node, [self.stmt(inner[0]), self.expr(inner[1])])
        if k == 'ReturnStmt':
            return self.mk('return', node, [self.expr(inner[0])] if inner else [])
        if k == 'BreakStmt':
            return self.mk('break', node)
        if k == 'ContinueStmt':
            return self.mk('continue', node)
        if k == 'NullStmt':
            return self.mk('null', node)
        if k == 'SwitchStmt':
            return self.mk('switch', node, [self.expr(inner[-2]), self.stmt(inner[-1])])
        if k == 'CaseStmt':
            sub = [self.expr(inner[0])]
            if len(inner) > 1:
                sub.append(self.stmt(inner[-1]))
            return self.mk('case', node, sub)
        if k == 'DefaultStmt':
            return self.mk('default', node, [self.stmt(inner[0])] if inner else [])
        if k == 'CXXTryStmt':
            return self.mk('try', node, [self.stmt(c) for c in inner])
        if k == 'CXXCatchStmt':
            return self.mk('catch', node, [self.stmt(inner[-1])])
        if k == 'AttributedStmt':
            return self.stmt(inner[-1])
        if k in ('GotoStmt', 'LabelStmt', 'GCCAsmStmt', 'MSAsmStmt', 'IndirectGotoStmt'):
            n = self.mk('unknown', node, kind=k)
            self.goto_sites.append((k, n.where()))
            return n
        # expression statement
        e = self.expr(node)
        return N('expr', [e], loc=e.loc if isinstance(e, N) else None, cid=node.get('id'))

    # -- expressions --
    def expr(self, node):
        if not node or 'kind' not in node:
            return None
        k = node['kind']
        inner = [c for c in node.get('inner', []) if isinstance(c, dict)]
        if k == 'ImplicitCastExpr':
            ck = node.get('castKind')
            if ck in VALUE_CASTS:
                sub = self.expr(inner[0])
                if ck == 'IntegralCast':
                    return self.integral_cast(node, inner[0], sub, True)
                if ck == 'FloatingCast':
                    return self.floating_cast(node, inner[0], sub, True)
                return self.mk('cast', node, [sub], kind=ck, implicit=True)
            return self.expr(inner[0])
        if k in ('ParenExpr', 'ExprWithCleanups', 'MaterializeTemporaryExpr', 'CXXBindTemporaryExpr',
                 'ConstantExpr', 'SubstNonTypeTemplateParmExpr', 'CXXStdInitializerListExpr'):
            return self.expr(inner[-1] if k == 'SubstNonTypeTemplateParmExpr' else inner[0])
        if k in ('CXXFunctionalCastExpr', 'CStyleCastExpr', 'CXXStaticCastExpr',
                 'CXXReinterpretCastExpr'):
            ck = node.get('castKind')
            sub = self.expr(inner[0])
            if ck == 'FloatingCast' and inner:
                return self.floating_cast(node, inner[0], sub, False)
            if ck in VALUE_CASTS and ck != 'IntegralCast':
                return self.mk('cast', node, [sub], kind=ck, implicit=False)
            if ck == 'IntegralCast' and inner:
                return self.integral_cast(node, inner[0], sub, False)
            if k == 'CXXReinterpretCastExpr':
                return self.mk('cast', node, [sub], kind='reinterpret_cast', implicit=False)
            if ck == 'BaseToDerived':
                return self.mk('cast', node, [sub], kind='BaseToDerived', implicit=False)
            return sub
        if k == 'CXXConstCastExpr':
            return self.mk('cast', node, [self.expr(inner[0])], kind='const_cast', implicit=False)
        if k == 'CXXDynamicCastExpr':
            return self.mk('cast', node, [self.expr(inner[0])], kind='dynamic_cast', implicit=False)
        if k == 'IntegerLiteral':
            return self.mk('lit', node, value=int(node.get('value')))
        if k == 'FloatingLiteral':
            return self.mk('lit', node, value=float(node.get('value')), text=node.get('value'))
        if k == 'CXXBoolLiteralExpr':
            return self.mk('lit', node, value=bool(node.get('value')))
        if k == 'StringLiteral':
            v = node.get('value')
            try:
                import json as _j
                v = _j.loads(v)
            except Exception:
                pass
            return self.mk('lit', node, value=v, string=True)
        if k == 'CharacterLiteral':
            return self.mk('lit', node, value=chr(node.get('value')), char=True)
        if k in ('CXXScalarValueInitExpr', 'ImplicitValueInitExpr'):
            return self.mk('lit', node, value=0, valueinit=True)
        if k == 'CXXNullPtrLiteralExpr':
            return self.mk('lit', node, value=None)
        if k == 'PredefinedExpr':
            return self.mk('lit', node, value='<func>', string=True)
        if k == 'DeclRefExpr':
            rd = node.get('referencedDecl', {})
            rk = rd.get('kind')
            rid = rd.get('id')
            if rk in ('ParmVarDecl', 'VarDecl', 'BindingDecl'):
                sc = getattr(self.p, 'static_consts', {})
                if rid in sc:
                    return self.mk('lit', node, value=sc[rid])
                si = getattr(self.p, 'static_inits', {})
                if rid in si and getattr(self, '_si_depth', 0) < 4:
                    self._si_depth = getattr(self, '_si_depth', 0) + 1
                    try:
                        return self.expr(si[rid])
                    finally:
                        self._si_depth -= 1
                probe = self.p.probes.get(rid)
                if probe:
                    return self.mk('var', node, id=rid, name=rd.get('name'), probe=probe, extern=True)
                return self.mk('var', node, id=rid, name=rd.get('name'))
            if rk == 'EnumConstantDecl':
                return self.mk('enum', node, id=rid, name=rd.get('name'))
            if rk in ('FunctionDecl', 'CXXMethodDecl', 'CXXConstructorDecl', 'CXXConversionDecl'):
                return self.mk('fref', node, id=rid, name=rd.get('name'),
                               hep=(rid in self.p.hep_ids), probe=self.p.probes.get(rid),
                               ftype=(rd.get('type') or {}).get('qualType'))
            if rk == 'NonTypeTemplateParmDecl':
                return self.mk('var', node, id=rid, name=rd.get('name'))
            return self.note_unknown(node)
        if k == 'MemberExpr':
            base = self.expr(inner[0]) if inner else N('this')
            mid_ = node.get('referencedMemberDecl')
            return self.mk('mem', node, [base], name=getattr(self.p, 'field_alias', {}).get(mid_, node.get('name')),
                           id=mid_, arrow=node.get('isArrow'))
        if k == 'CXXThisExpr':
            return self.mk('this', node, implicit=node.get('implicit'))
        if k == 'CallExpr' or k == 'CUDAKernelCallExpr':
            callee = self.expr(inner[0])
            args = [self.expr(c) for c in inner[1:]]
            if callee is not None and callee.op == 'fref':
                if callee.a.get('name') == '__assert_fail':
                    return self.mk('call', node, args, name='__assert_fail', id=callee.a['id'],
                                   hep=False, probe=None)
                return self.mk('call', node, args, name=callee.a['name'], id=callee.a['id'],
                               hep=callee.a['hep'], probe=callee.a.get('probe'),
                               ftype=callee.a.get('ftype'))
            if callee is not None and callee.op == 'mem':
                # static member function called through an object: obj.f(args)
                return self.mk('mcall', node, [callee.k[0]] + args, name=callee.a.get('name'),
                               id=callee.a.get('id'), hep=(callee.a.get('id') in self.p.hep_ids),
                               arrow=callee.a.get('arrow'), objtype=callee.k[0].ty)
            # call through an object / pointer (functor members are CXXOperatorCallExpr)
            return self.mk('call', node, [callee] + args, name='<indirect>', id=None, hep=False,
                           probe=None, indirect=True)
        if k == 'CXXMemberCallExpr':
            callee = inner[0]
            while callee.get('kind') in ('ParenExpr', 'ImplicitCastExpr'):
                callee = callee['inner'][0]
            args = [self.expr(c) for c in inner[1:]]
            if callee.get('kind') == 'MemberExpr':
                cin = [c for c in callee.get('inner', []) if isinstance(c, dict)]
                obj = self.expr(cin[0]) if cin else N('this')
                mid = callee.get('referencedMemberDecl')
                return self.mk('mcall', node, [obj] + args, name=callee.get('name'), id=mid,
                               hep=(mid in self.p.hep_ids), arrow=callee.get('isArrow'),
                               objtype=self.ty(cin[0]) if cin else None)
            return self.note_unknown(node)
        if k == 'CXXOperatorCallExpr':
            callee = self.expr(inner[0])
            args = [self.expr(c) for c in inner[1:]]
            if callee is not None and callee.op == 'fref':
                return self.mk('opcall', node, args, opname=callee.a['name'], id=callee.a['id'],
                               hep=callee.a['hep'], ftype=callee.a.get('ftype'))
            return self.note_unknown(node)
        if k in ('CXXConstructExpr', 'CXXTemporaryObjectExpr'):
            args = [self.expr(c) for c in inner]
            t = self.ty(node)
            ctype = (node.get('ctorType') or {}).get('qualType', '')
            copy = False
            if len(args) == 1:
                m = re.match(r'^void \((?:const )?(.*?) ?&&?\)', ctype)
                if m:
                    a = strip_cvref(m.group(1).replace('verif_driver::T', self.numeric))
                    b = strip_cvref(t) or ''
                    ka = a.replace('hep::', '').replace('std::', '')
                    kb = b.replace('hep::', '').replace('std::', '')
                    if ka == kb or (self.p.canon(a) == self.p.canon(b)):
                        copy = True
            return self.mk('construct', node, args, type=strip_cvref(t), ctype=ctype, copy=copy,
                           elidable=bool(node.get('elidable')), listinit=bool(node.get('list')),
                           zeroing=bool(node.get('zeroing')),
                           hep=('hep::' in (t or '') and not (t or '').startswith('std::')))
        if k == 'InitListExpr':
            return self.mk('initlist', node, [self.expr(c) for c in inner])
        if k == 'BinaryOperator':
            o = node.get('opcode')
            l = self.expr(inner[0])
            r = self.expr(inner[1])
            if o == '=':
                return self.mk('assign', node, [l, r], o='=')
            return self.mk('bin', node, [l, r], o=o)
        if k == 'CompoundAssignOperator':
            return self.mk('assign', node, [self.expr(inner[0]), self.expr(inner[1])],
                           o=node.get('opcode'))
        if k == 'UnaryOperator':
            return self.mk('un', node, [self.expr(inner[0])], o=node.get('opcode'),
                           postfix=bool(node.get('isPostfix')))
        if k == 'ConditionalOperator':
            c, a, b = [self.expr(x) for x in inner[:3]]
            # assert(): (cond) ? void(0) : __assert_fail(...)
            if b is not None and b.op == 'call' and b.a.get('name') == '__assert_fail':
                return self.mk('assert', node, [c])
            return self.mk('cond', node, [c, a, b])
        if k == 'ArraySubscriptExpr':
            return self.mk('index', node, [self.expr(inner[0]), self.expr(inner[1])])
        if k == 'LambdaExpr':
            body = None
            params = []
            for c in inner:
                if c.get('kind') == 'CXXRecordDecl':
                    for m in c.get('inner', ()):
                        if m.get('kind') == 'CXXMethodDecl' and m.get('name') == 'operator()':
                            for pc in m.get('inner', ()):
                                if pc.get('kind') == 'ParmVarDecl':
                                    params.append(Param(pc.get('id'), pc.get('name'), self.ty(pc)))
                                elif pc.get('kind') == 'CompoundStmt':
                                    body = self.stmt(pc)
            if body is None:
                for c in inner:
                    if c.get('kind') == 'CompoundStmt':
                        body = self.stmt(c)
            return self.mk('lambda', node, [body] if body else [], params=params)
        if k == 'CXXDefaultArgExpr':
            return self.mk('defaultarg', node)
        if k == 'CXXDefaultInitExpr':
            return self.mk('defaultarg', node, init=True)
        if k == 'CXXThrowExpr':
            return self.mk('throw', node, [self.expr(c) for c in inner])
        if k == 'UnaryExprOrTypeTraitExpr':
            return self.mk('lit', node, value='sizeof', sizeof=True)
        if k == 'CXXNewExpr' or k == 'CXXDeleteExpr':
            return self.note_unknown(node)
        if k == 'OpaqueValueExpr':
            return self.expr(inner[0]) if inner else self.note_unknown(node)
        if k == 'BinaryConditionalOperator':
            return self.note_unknown(node)
        if k == 'StmtExpr':
            return self.note_unknown(node)
        if k == 'TypeTraitExpr':
            return self.mk('lit', node, value=node.get('value', '<trait>'))
        if k == 'CXXNoexceptExpr':
            return self.mk('lit', node, value=True)
        if k in STMT_KINDS:
            return self.stmt(node)
        return self.note_unknown(node)
