"""Negative controls (thorough tier): seeded faults applied to a scratch copy of the *current*
headers; the rules of the property must report a VIOLATION on each.  A control that stays silent
makes the check ANALYSIS-BROKEN: a checker that cannot see its own seeded fault is not believed.
The scratch copy lives in a fresh temporary directory and is removed immediately."""
import importlib
import json
import os
import shutil
import tempfile

from . import frontend, report
from .frontend import AnalysisBroken, VERIF

MUTANTS = os.path.join(VERIF, 'mutants', 'mutants.json')


def load_mutants(pid=None):
    if not os.path.exists(MUTANTS):
        return []
    ms = json.load(open(MUTANTS))
    if pid:
        ms = [m for m in ms if pid in m.get('properties', [])]
    return ms


def make_scratch(repo):
    d = tempfile.mkdtemp(prefix='hepsa-scratch-')
    shutil.copytree(os.path.join(repo, 'include'), os.path.join(d, 'include'))
    for f in ('meson.build',):
        if os.path.exists(os.path.join(repo, f)):
            shutil.copy(os.path.join(repo, f), os.path.join(d, f))
    return d


def apply_mutant(scratch, m):
    """Returns True if applied, False if the anchor text is not present (skipped)."""
    for ed in m['edits']:
        path = os.path.join(scratch, ed['file'])
        if not os.path.exists(path):
            return False
        s = open(path).read()
        n = s.count(ed['find'])
        if n == 0:
            return False
        if ed.get('all'):
            s = s.replace(ed['find'], ed['replace'])
        else:
            idx = ed.get('nth', 0)
            pos = -1
            for _ in range(idx + 1):
                pos = s.find(ed['find'], pos + 1)
                if pos < 0:
                    return False
            s = s[:pos] + ed['replace'] + s[pos + len(ed['find']):]
        open(path, 'w').write(s)
    return True


def analyse(pid, repo, use_cache=False):
    """Run the quick rules of pid on repo; returns the Ctx."""
    prog = frontend.load(repo, use_cache=use_cache)
    ctx = report.Ctx(pid, 'quick', prog)
    mod = importlib.import_module('hepsa.rules.' + pid)
    try:
        mod.check(ctx)
    except AnalysisBroken as e:
        ctx.broken('rules', pid, str(e))
    from .main import INSTANTIATIONS_QUICK
    for numeric, engine in INSTANTIATIONS_QUICK:
        try:
            p2 = frontend.load(repo, numeric=numeric, engine=engine, use_cache=use_cache)
            ctx.prog = p2
            ctx.inst_label = '%s/%s' % (numeric, engine)
            mod.check(ctx)
        except AnalysisBroken as e:
            ctx.broken('instantiation', numeric, str(e))
    ctx.prog = prog
    return ctx


def load_seeded(pid):
    """independently written seeded changes (seeded/<id>/patch.diff) that this property's check
    is recorded to report"""
    out = []
    d = os.path.join(VERIF, 'seeded')
    if not os.path.isdir(d):
        return out
    for sid in sorted(os.listdir(d)):
        mp = os.path.join(d, sid, 'meta.json')
        pp = os.path.join(d, sid, 'patch.diff')
        if not (os.path.exists(mp) and os.path.exists(pp)):
            continue
        try:
            meta = json.load(open(mp))
        except Exception:
            continue
        rep = meta.get('reported_by', {})
        if meta.get('breaks_property') == pid or (pid in rep and rep[pid].get('exit') == 1):
            out.append({'id': 'seeded/' + sid, 'patch': pp, 'properties': [pid], 'what': meta.get('needs_to_manifest', '')})
    return out


def apply_patch(scratch, path):
    import subprocess
    r = subprocess.run(['patch', '-p1', '-s', '-f', '-d', scratch, '-i', path], stdout=subprocess.PIPE,
                       stderr=subprocess.STDOUT)
    return r.returncode == 0


def run_one(pid, repo, m):
    scratch = make_scratch(repo)
    try:
        if 'patch' in m:
            if not apply_patch(scratch, m['patch']):
                return {'mutant': m['id'], 'status': 'skipped (patch does not apply to the current tree)'}
        elif not apply_mutant(scratch, m):
            return {'mutant': m['id'], 'status': 'skipped (anchor text not present in the tree)'}
        try:
            ctx = analyse(pid, scratch)
        except AnalysisBroken as e:
            return {'mutant': m['id'], 'status': 'front end rejected the mutant', 'detail': str(e)[:300]}
        viol = [i for i in ctx.instances if i.verdict == 'VIOLATION']
        brk = [i for i in ctx.instances if i.verdict == 'BROKEN']
        if viol:
            return {'mutant': m['id'], 'status': 'fired',
                    'rules': sorted(set('%s@%s' % (i.rule, i.site) for i in viol))[:6]}
        if brk:
            return {'mutant': m['id'], 'status': 'analysis-broken',
                    'detail': '; '.join('%s %s: %s' % (i.rule, i.site, i.detail[:200]) for i in brk[:3])}
        return {'mutant': m['id'], 'status': 'silent'}
    finally:
        shutil.rmtree(scratch, ignore_errors=True)


def run(pid, ctx, repo):
    ms = load_mutants(pid) + load_seeded(pid)
    if not ms:
        return
    from concurrent.futures import ProcessPoolExecutor
    results = []
    with ProcessPoolExecutor(max_workers=min(14, len(ms))) as ex:
        futs = [ex.submit(run_one, pid, repo, m) for m in ms]
        for f in futs:
            try:
                results.append(f.result())
            except Exception as e:
                results.append({'mutant': '?', 'status': 'error', 'detail': str(e)[:300]})
    ctx.controls = results
    for r in results:
        if r['status'] == 'silent':
            ctx.broken('negative-control', r['mutant'],
                       'seeded fault was not reported: the rules of %s are blind to it' % pid)
        elif r['status'] in ('analysis-broken', 'error'):
            ctx.warn('negative-control', r['mutant'], 'seeded fault made the analysis give up '
                     '(exit 2 rather than a violation): %s' % r.get('detail', ''))
