"""E1: identity testing of terms over the reals.

Two terms are equal iff, for every truth assignment of the (finitely many, syntactic) condition
atoms occurring in them, the difference of the two ite-free terms cancels to the zero rational
function (sympy: together + cancel, i.e. canonical expansion; no search, no solver).  Non-rational
sub-terms (sqrt, pow, log, element reads, reductions, uninterpreted calls) are atoms built from
their canonicalised arguments.
"""
import itertools
from fractions import Fraction

import sympy as sp

from . import terms as T

_sym_cache = {}


def S(name):
    s = _sym_cache.get(name)
    if s is None:
        s = sp.Symbol(name, real=True)
        _sym_cache[name] = s
    return s


F_SEL = sp.Function('sel')
F_FLD = sp.Function('fld')
F_SUM = sp.Function('SUM')
F_PROD = sp.Function('PROD')
F_IDIV = sp.Function('idiv')
F_IMOD = sp.Function('imod')
F_TRUNC = sp.Function('trunc')
F_SIZE = sp.Function('size')


class Conv:
    def __init__(self):
        self.atoms = {}
        self.depth = 0

    def canon(self, e):
        try:
            return sp.cancel(sp.together(e))
        except Exception:
            return e

    def atom(self, key):
        return S(key)

    def go(self, t):
        if not isinstance(t, tuple) or not t:
            return S(str(t))
        k = t[0]
        g = self.go
        if k == 'num':
            return sp.Rational(t[1].numerator, t[1].denominator)
        if k == 'sym':
            return S(str(t[1]))
        if k == 'bool':
            return sp.true if t[1] else sp.false
        if k == '+':
            return g(t[1]) + g(t[2])
        if k == '-':
            return g(t[1]) - g(t[2])
        if k == '*':
            return g(t[1]) * g(t[2])
        if k == '/':
            return g(t[1]) / g(t[2])
        if k == 'neg':
            return -g(t[1])
        if k == 'idiv':
            return F_IDIV(self.canon(g(t[1])), self.canon(g(t[2])))
        if k == 'imod':
            return F_IMOD(self.canon(g(t[1])), self.canon(g(t[2])))
        if k == 'trunc':
            return F_TRUNC(self.canon(g(t[1])))
        if k == 'fn':
            name = t[1]
            args = [self.canon(g(a)) for a in t[2:]]
            if name == 'sqrt' and len(args) == 1:
                return sp.sqrt(args[0])
            if name == 'pow' and len(args) == 2:
                return sp.Pow(args[0], args[1])
            if name == 'log' and len(args) == 1:
                return sp.log(args[0])
            if name == 'log2' and len(args) == 1:
                return sp.log(args[0]) / sp.log(2)
            if name in ('fabs', 'abs') and len(args) == 1:
                return sp.Abs(args[0])
            if name in ('fmax', 'max') and len(args) == 2:
                return sp.Function('fmax')(*sorted(args, key=sp.default_sort_key))
            if name in ('fmin', 'min') and len(args) == 2:
                return sp.Function('fmin')(*sorted(args, key=sp.default_sort_key))
            return sp.Function(name)(*args)
        if k == 'sel':
            return F_SEL(g(t[1]), self.canon(g(t[2])))
        if k == 'fld':
            base = t[1]
            if isinstance(base, tuple) and base[0] in ('sym', 'fld'):
                return S(T.pretty(t))
            return F_FLD(g(base), S(str(t[2])))
        if k == 'size':
            return F_SIZE(g(t[1]))
        if k in ('sum', 'prod'):
            self.depth += 1
            dummy = S('_k%d' % self.depth)
            body = T.subst(t[4], {t[1]: ('sym', '_k%d' % self.depth)})
            b = self.canon(g(body))
            self.depth -= 1
            f = F_SUM if k == 'sum' else F_PROD
            return f(self.canon(g(t[2])), self.canon(g(t[3])), b)
        if k == 'ite':
            raise ValueError('ite must be eliminated by case splitting first')
        # opaque atom: keyed by its printed form (arguments are already structural)
        return S('@' + T.pretty(t))


def cond_atoms(t, out=None):
    """Syntactic condition atoms of all ite nodes in t (in first-occurrence order)."""
    if out is None:
        out = []
    for s in _walk(t):
        if isinstance(s, tuple) and s[0] == 'ite':
            for a in _atoms_of_cond(s[1]):
                if a not in out:
                    out.append(a)
    return out


def _walk(t):
    seen = set()
    stack = [t]
    while stack:
        x = stack.pop()
        if not isinstance(x, tuple) or not x or x in seen or x[0] in ('lv', 'ref'):
            continue
        seen.add(x)
        yield x
        for c in x[1:]:
            if isinstance(c, tuple):
                stack.append(c)


def _atoms_of_cond(c):
    if isinstance(c, tuple) and c[0] in ('and', 'or'):
        return _atoms_of_cond(c[1]) + _atoms_of_cond(c[2])
    if isinstance(c, tuple) and c[0] == 'not':
        return _atoms_of_cond(c[1])
    if isinstance(c, tuple) and c[0] == 'bool':
        return []
    return [canon_atom(c)[0]]


def canon_atom(c):
    """Canonical form of a comparison atom: returns (atom, negated)."""
    if isinstance(c, tuple) and c[0] in ('<', '<=', '>', '>=', '==', '!='):
        op, a, b = c
        if op == '>':
            return ('<', b, a), False
        if op == '>=':
            return ('<', a, b), True
        if op == '<=':
            return ('<', b, a), True
        if op == '!=':
            x, y = sorted([a, b], key=repr)
            return ('==', x, y), True
        if op == '==':
            x, y = sorted([a, b], key=repr)
            return ('==', x, y), False
        return c, False
    return c, False


def eval_cond(c, assign):
    if isinstance(c, tuple):
        if c[0] == 'bool':
            return c[1]
        if c[0] == 'and':
            return eval_cond(c[1], assign) and eval_cond(c[2], assign)
        if c[0] == 'or':
            return eval_cond(c[1], assign) or eval_cond(c[2], assign)
        if c[0] == 'not':
            return not eval_cond(c[1], assign)
    a, negd = canon_atom(c)
    v = assign[a]
    return (not v) if negd else v


def resolve_ite(t, assign):
    """Replace every ite by the arm selected under the truth assignment of the atoms."""
    cache = {}

    def go(x):
        if not isinstance(x, tuple) or not x or not isinstance(x[0], str) or x[0] in ('lv', 'ref'):
            return x
        r = cache.get(x)
        if r is not None:
            return r
        if x[0] == 'ite':
            r = go(x[2]) if eval_cond(x[1], assign) else go(x[3])
        elif x[0] in ('num', 'sym', 'bool', 'str', 'chr', 'enum'):
            r = x
        elif x[0] == 'obj':
            r = ('obj', x[1], go(x[2]) if x[2] is not None else None,
                 tuple((n, go(v)) for n, v in x[3]))
        else:
            r = (x[0],) + tuple(go(c) for c in x[1:])
        cache[x] = r
        return r
    return go(t)


def to_sympy(t):
    return Conv().go(t)


def is_zero(e):
    try:
        d = sp.cancel(sp.together(e))
        if d == 0:
            return True
        d = sp.simplify(d)
        return d == 0
    except Exception:
        return False


def alpha(t, depth=0):
    """Canonical names for bound variables (sum / prod / vmap / vcomp / count binders)."""
    if not isinstance(t, tuple) or not t or not isinstance(t[0], str):
        return t
    k = t[0]
    if k in ('num', 'sym', 'bool', 'str', 'chr', 'enum', 'lv', 'ref'):
        return t
    if k in ('sum', 'prod') and len(t) == 5:
        b = ('sym', '_b%d' % depth)
        return (k, b, alpha(t[2], depth), alpha(t[3], depth),
                alpha(T.subst(t[4], {t[1]: b}), depth + 1))
    if k == 'vmap' and len(t) == 6:
        b = ('sym', '_b%d' % depth)
        return (k, alpha(t[1], depth), b, alpha(t[3], depth), alpha(t[4], depth),
                alpha(T.subst(t[5], {t[2]: b}), depth + 1))
    if k == 'vcomp' and len(t) == 7:
        b = ('sym', '_b%d' % depth)
        return (k, alpha(t[1], depth), b, alpha(t[3], depth), alpha(t[4], depth),
                alpha(T.subst(t[5], {t[2]: b}), depth + 1),
                alpha(T.subst(t[6], {t[2]: b}), depth + 1))
    if k == 'obj':
        return ('obj', t[1], alpha(t[2], depth) if t[2] is not None else None,
                tuple((n, alpha(v, depth)) for n, v in t[3]))
    return (k,) + tuple(alpha(c, depth) if isinstance(c, tuple) else c for c in t[1:])


_diff_cache = {}


def _diff(x, y):
    """canonical sympy form of y - x for ite-free operands"""
    key = (x, y)
    r = _diff_cache.get(key)
    if r is None:
        try:
            r = sp.cancel(sp.together(to_sympy(y) - to_sympy(x)))
        except Exception:
            r = None
        _diff_cache[key] = r
    return r


CMP = ('<', '<=', '>', '>=', '==', '!=')


def _has_ite(t):
    for s_ in _walk(t):
        if isinstance(s_, tuple) and s_[0] == 'ite':
            return True
    return False


def _innermost_atom(t):
    """A condition atom (of some ite in t) that contains no ite itself."""
    for s_ in _walk(t):
        if isinstance(s_, tuple) and s_[0] == 'ite':
            for a in _raw_atoms(s_[1]):
                if not _has_ite(a):
                    return a
    return None


def _raw_atoms(c):
    if isinstance(c, tuple) and c[0] in ('and', 'or'):
        return _raw_atoms(c[1]) + _raw_atoms(c[2])
    if isinstance(c, tuple) and c[0] == 'not':
        return _raw_atoms(c[1])
    if isinstance(c, tuple) and c[0] == 'bool':
        return []
    return [c]


def _sign_truth(op, sgn):
    # sign of (rhs - lhs)
    return {'<': sgn == 'pos', '<=': sgn in ('pos', 'zero'), '>': sgn == 'neg',
            '>=': sgn in ('neg', 'zero'), '==': sgn == 'zero', '!=': sgn != 'zero'}[op]


def _assign_sign(t, d, sgn):
    """Replace every ite-free comparison whose difference is +-d by its truth value."""
    flip = {'pos': 'neg', 'neg': 'pos', 'zero': 'zero'}
    cache = {}

    def go(x):
        if not isinstance(x, tuple) or not x or not isinstance(x[0], str) or x[0] in ('lv', 'ref'):
            return x
        r = cache.get(x)
        if r is not None:
            return r
        if x[0] in ('num', 'sym', 'bool', 'str', 'chr', 'enum'):
            r = x
        elif x[0] in CMP and not _has_ite(x):
            d2 = _diff(x[1], x[2])
            if d2 is not None and d2 == d:
                r = T.TRUE if _sign_truth(x[0], sgn) else T.FALSE
            elif d2 is not None and sp.cancel(d2 + d) == 0:
                r = T.TRUE if _sign_truth(x[0], flip[sgn]) else T.FALSE
            else:
                r = x
        elif x[0] == 'obj':
            r = ('obj', x[1], go(x[2]) if x[2] is not None else None,
                 tuple((n, go(v)) for n, v in x[3]))
        else:
            kids = tuple(go(c) for c in x[1:])
            k = x[0]
            if k == 'ite':
                r = T.ite(*kids)
            elif k == 'and':
                r = T.land(*kids)
            elif k == 'or':
                r = T.lor(*kids)
            elif k == 'not':
                r = T.lnot(*kids)
            else:
                r = (k,) + kids
        cache[x] = r
        return r
    return go(t)


def _assign_bool(t, atom, val):
    return T.subst(t, {atom: T.TRUE if val else T.FALSE})


def equal(a, b, max_depth=10):
    """(True, None) if a == b over the reals in every case of the (innermost-first) case split
    on the condition atoms; comparisons are split by the sign of their difference (trichotomy),
    other atoms by truth value.  Else (False, witness)."""
    return _eq(alpha(a), alpha(b), [], max_depth)


def _eq(a, b, case, depth):
    if a == b:
        return True, None
    atom = _innermost_atom(a)
    if atom is None:
        atom = _innermost_atom(b)
    if atom is None:
        try:
            ea = to_sympy(a)
            eb = to_sympy(b)
        except ValueError as ex:
            return False, {'reason': str(ex)}
        if ea == eb or is_zero(ea - eb):
            return True, None
        ca, cb = sp.cancel(sp.together(ea)), sp.cancel(sp.together(eb))
        if ca == cb:
            return True, None
        return False, {'case': case, 'lhs': str(sp.cancel(sp.together(ea))),
                       'rhs': str(sp.cancel(sp.together(eb)))}
    if depth <= 0:
        return False, {'reason': 'case split too deep'}
    if isinstance(atom, tuple) and atom[0] in CMP:
        d = _diff(atom[1], atom[2])
        if d is not None:
            for sgn in ('neg', 'zero', 'pos'):
                if d.is_number:
                    real = 'zero' if d == 0 else ('pos' if d > 0 else 'neg')
                    if real != sgn:
                        continue
                a2 = _assign_sign(a, d, sgn)
                b2 = _assign_sign(b, d, sgn)
                if sgn == 'zero':
                    x, y = atom[1], atom[2]
                    if T.is_num(y) or (isinstance(x, tuple) and x[0] not in ('num',) and
                                       len(repr(x)) > len(repr(y)) and not T.is_num(x)):
                        x, y = y, x
                    if not T.is_num(y):
                        a2 = T.subst(a2, {y: x})
                        b2 = T.subst(b2, {y: x})
                ok, w = _eq(a2, b2, case + ['%s - %s is %s' % (T.pretty(atom[2])[:80],
                                                               T.pretty(atom[1])[:80], sgn)],
                            depth - 1)
                if not ok:
                    return ok, w
            return True, None
    for val in (True, False):
        a2 = _assign_bool(a, atom, val)
        b2 = _assign_bool(b, atom, val)
        ok, w = _eq(a2, b2, case + ['%s is %s' % (T.pretty(atom)[:120], val)], depth - 1)
        if not ok:
            return ok, w
    return True, None


def equalities(assign):
    """Equalities implied by an assignment: x == y true; or !(a<b) and !(b<a)."""
    m = {}
    for k, v in assign.items():
        if k[0] == '==' and v:
            m[k[2]] = k[1]
        if k[0] == '<' and not v:
            rev = ('<', k[2], k[1])
            if rev in assign and not assign[rev]:
                x, y = sorted([k[1], k[2]], key=repr)
                m[y] = x
    return m


def minmax_to_ite(t):
    """std::min / std::max / fmin / fmax over the reals as ite (used for integer formulas)."""
    def go(x):
        if not isinstance(x, tuple) or not x or not isinstance(x[0], str) or x[0] in ('lv', 'ref'):
            return x
        if x[0] in ('num', 'sym', 'bool', 'str', 'chr', 'enum'):
            return x
        kids = tuple(go(c) for c in x[1:])
        y = (x[0],) + kids
        if y[0] == 'fn' and y[1] in ('min', 'fmin') and len(y) == 4:
            return T.ite(T.cmp('<', y[3], y[2]), y[3], y[2])
        if y[0] == 'fn' and y[1] in ('max', 'fmax') and len(y) == 4:
            return T.ite(T.cmp('<', y[2], y[3]), y[3], y[2])
        return y
    return go(t)


def consistent(assign):
    """Cheap pruning of contradictory assignments: (a<b) and (b<a), (a<b) and (a==b)."""
    for k, v in assign.items():
        if not v:
            continue
        if k[0] == '<':
            rev = ('<', k[2], k[1])
            if assign.get(rev):
                return False
            x, y = sorted([k[1], k[2]], key=repr)
            if assign.get(('==', x, y)):
                return False
    return True


def nf(t):
    """Printable normal form of an ite-free term."""
    try:
        return str(sp.cancel(sp.together(to_sympy(t))))
    except Exception:
        return T.pretty(t)
