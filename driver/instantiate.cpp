// Instantiation driver for the static analysis of hep-mc.
//
// This translation unit is never compiled into an executable and never run; it is handed to
// `clang++ -fsyntax-only -Xclang -ast-dump=json` so that every template of namespace hep is
// instantiated once with all names resolved.  The functors below are declared but not defined:
// the analysis treats them as opaque user callbacks.
//
// VT      numeric type (default double)
// VENGINE random number engine (default std::mt19937)

#ifndef VT
#define VT double
#endif
#ifndef VENGINE
#define VENGINE std::mt19937
#endif

#include <cstddef>
#include <iosfwd>
#include <limits>
#include <random>
#include <sstream>
#include <string>
#include <vector>

#include "hep/mc-mpi.hpp"

namespace verif_driver
{

using T = VT;
using E = VENGINE;

// integrand without distributions
struct F0
{
    T operator()(hep::mc_point<T> const&);
};

// integrand with distributions
struct F1
{
    T operator()(hep::mc_point<T> const&, hep::projector<T>&);
};

// integrands for multi channel integrators
struct G0
{
    T operator()(hep::multi_channel_point<T> const&);
};

struct G1
{
    T operator()(hep::multi_channel_point<T> const&, hep::projector<T>&);
};

struct Map
{
    T operator()(
        std::size_t,
        std::vector<T> const&,
        std::vector<T>&,
        std::vector<std::size_t> const&,
        std::vector<T>&,
        hep::multi_channel_map
    );
};

}

// explicit instantiations: force *all* members, including those no caller uses
template class hep::accumulator<verif_driver::T, true>;
template class hep::accumulator<verif_driver::T, false>;
template class hep::mc_result<verif_driver::T>;
template class hep::plain_result<verif_driver::T>;
template class hep::vegas_result<verif_driver::T>;
template class hep::multi_channel_result<verif_driver::T>;
template class hep::distribution_parameters<verif_driver::T>;
template class hep::distribution_result<verif_driver::T>;
template class hep::vegas_pdf<verif_driver::T>;
template class hep::mc_point<verif_driver::T>;
template class hep::vegas_point<verif_driver::T>;
template class hep::multi_channel_point<verif_driver::T>;
template class hep::multi_channel_point2<verif_driver::T, verif_driver::Map>;
template class hep::projector<verif_driver::T>;
template class hep::chkpt<hep::plain_result<verif_driver::T>>;
template class hep::chkpt<hep::vegas_result<verif_driver::T>>;
template class hep::chkpt<hep::multi_channel_result<verif_driver::T>>;
template class hep::vegas_chkpt<verif_driver::T>;
template class hep::multi_channel_chkpt<verif_driver::T>;
template class hep::chkpt_with_rng<verif_driver::E, hep::plain_chkpt<verif_driver::T>>;
template class hep::chkpt_with_rng<verif_driver::E, hep::vegas_chkpt<verif_driver::T>>;
template class hep::chkpt_with_rng<verif_driver::E, hep::multi_channel_chkpt<verif_driver::T>>;
template class hep::callback<hep::plain_chkpt_with_rng<verif_driver::E, verif_driver::T>>;
template class hep::callback<hep::vegas_chkpt_with_rng<verif_driver::E, verif_driver::T>>;
template class hep::callback<hep::multi_channel_chkpt_with_rng<verif_driver::E, verif_driver::T>>;
template class hep::mpi_callback<hep::plain_chkpt_with_rng<verif_driver::E, verif_driver::T>>;
template class hep::mpi_callback<hep::vegas_chkpt_with_rng<verif_driver::E, verif_driver::T>>;
template class hep::mpi_callback<hep::multi_channel_chkpt_with_rng<verif_driver::E, verif_driver::T>>;
template class hep::multi_channel_weight_info<verif_driver::T>;
template class hep::discrete_distribution<std::size_t, verif_driver::T>;
template class hep::integrand<verif_driver::T, verif_driver::F0, false>;
template class hep::integrand<verif_driver::T, verif_driver::F1, true>;
template class hep::multi_channel_integrand<verif_driver::T, verif_driver::G0, verif_driver::Map, false>;
template class hep::multi_channel_integrand<verif_driver::T, verif_driver::G1, verif_driver::Map, true>;
template struct hep::weighted_with_variance<std::vector<hep::mc_result<verif_driver::T>>::const_iterator>;
template struct hep::weighted_equally<std::vector<hep::mc_result<verif_driver::T>>::const_iterator>;

namespace verif_driver
{

// calls every function template once; never executed
void instantiate_everything(MPI_Comm comm, std::istream& in, std::ostream& out)
{
    F0 f0;
    F1 f1;
    G0 g0;
    G1 g1;
    Map map;
    E engine;

    std::vector<std::size_t> const calls{1000, 1000};

    auto i0 = hep::make_integrand<T>(f0, 3);
    auto i1 = hep::make_integrand<T>(f1, 3, hep::make_dist_params<T>(10, T(), T(1.0), "x"),
        hep::distribution_parameters<T>(4, 4, T(), T(1.0), T(), T(1.0), "xy"));
    auto m0 = hep::make_multi_channel_integrand<T>(g0, 3, map, 4, 2);
    auto m1 = hep::make_multi_channel_integrand<T>(g1, 3, map, 4, 2,
        hep::make_dist_params<T>(10, T(), T(1.0)));

    // checkpoint factories, all overloads
    auto pc = hep::make_plain_chkpt<T, E>(engine);
    auto pc2 = hep::make_plain_chkpt<T, E>(in);
    auto vc = hep::make_vegas_chkpt<T, E>(128, T(1.5), engine);
    auto vc2 = hep::make_vegas_chkpt<T, E>(hep::vegas_pdf<T>(3, 16), T(1.5), engine);
    auto vc3 = hep::make_vegas_chkpt<T, E>(in);
    auto mc = hep::make_multi_channel_chkpt<T, E>(T(), T(0.25), engine);
    auto mc2 = hep::make_multi_channel_chkpt<T, E>(std::vector<T>{T(0.5), T(0.5)}, T(), T(0.25),
        engine);
    auto mc3 = hep::make_multi_channel_chkpt<T, E>(in);

    using PC = decltype (pc);
    using VC = decltype (vc);
    using MC = decltype (mc);

    // serial integrators, with and without distributions
    auto r1 = hep::plain(i0, calls, pc, hep::callback<PC>());
    auto r2 = hep::plain(i1, calls, pc, hep::callback<PC>());
    auto r3 = hep::vegas(i0, calls, vc, hep::callback<VC>());
    auto r4 = hep::vegas(i1, calls, vc, hep::callback<VC>());
    auto r5 = hep::multi_channel(m0, calls, mc, hep::callback<MC>());
    auto r6 = hep::multi_channel(m1, calls, mc, hep::callback<MC>());

    // MPI integrators
    auto s1 = hep::mpi_plain(comm, i0, calls, pc, hep::mpi_callback<PC>());
    auto s2 = hep::mpi_plain(comm, i1, calls, pc, hep::mpi_callback<PC>());
    auto s3 = hep::mpi_vegas(comm, i0, calls, vc, hep::mpi_callback<VC>());
    auto s4 = hep::mpi_vegas(comm, i1, calls, vc, hep::mpi_callback<VC>());
    auto s5 = hep::mpi_multi_channel(comm, m0, calls, mc, hep::mpi_callback<MC>());
    auto s6 = hep::mpi_multi_channel(comm, m1, calls, mc, hep::mpi_callback<MC>());

    // helpers
    std::vector<hep::mc_result<T>> mcr;
    auto a1 = hep::accumulate<hep::weighted_with_variance>(mcr.begin(), mcr.end());
    auto a2 = hep::accumulate<hep::weighted_equally>(mcr.begin(), mcr.end());
    auto a3 = hep::accumulate<hep::weighted_with_variance>(r2.results().begin(),
        r2.results().end());
    auto a4 = hep::accumulate<hep::weighted_equally>(r2.results().begin(), r2.results().end());
    // the public combination functions over every result type, so that their instantiation does not depend on
    // what the built-in callback happens to use
    auto a5 = hep::accumulate<hep::weighted_with_variance>(r4.results().begin(), r4.results().end());
    auto a6 = hep::accumulate<hep::weighted_with_variance>(r6.results().begin(), r6.results().end());
    auto c3 = hep::chi_square_dof<hep::weighted_with_variance>(r2.results().begin(), r2.results().end());
    (void) a5; (void) a6; (void) c3;
    auto c1 = hep::chi_square_dof<hep::weighted_with_variance>(mcr.begin(), mcr.end());
    auto c2 = hep::chi_square_dof<hep::weighted_equally>(r2.results().begin(),
        r2.results().end());
    auto cr = hep::create_result(std::size_t(10), std::size_t(10), std::size_t(10), T(1.0),
        T(0.1));

    auto mx = hep::mid_points_x(r2.results().back().distributions().front());
    auto my = hep::mid_points_y(r2.results().back().distributions().front());

    hep::multi_channel_summary(static_cast <hep::multi_channel_chkpt<T> const&> (r5), out);
    auto md = hep::multi_channel_max_difference(r5.results().back());
    hep::multi_channel_weight_info<T> info(r5.results().back());
    auto mwc = hep::minimal_weight_channels(info);
    auto lr = hep::make_list_of_ranges(mwc);

    auto rw = hep::multi_channel_refine_weights(std::vector<T>{T(0.5), T(0.5)},
        std::vector<T>{T(1.0), T(1.0)}, T(), T(0.25));
    auto rp = hep::vegas_refine_pdf(hep::vegas_pdf<T>(3, 16), T(1.5), std::vector<T>(48));

    hep::discrete_distribution<std::size_t, T> dd(rw.begin(), rw.end());
    auto ch = dd(engine);

    auto ru = hep::random_number_usage<T, E>();

    auto dt1 = hep::mpi_datatype<T>();
    auto dt2 = hep::mpi_datatype<std::size_t>();


    (void) a1; (void) a2; (void) a3; (void) a4; (void) c1; (void) c2; (void) cr; (void) mx;
    (void) my; (void) md; (void) lr; (void) rp; (void) ch; (void) ru;
    (void) dt1; (void) dt2; (void) r1; (void) r3; (void) r4; (void) r6; (void) s1;
    (void) s2; (void) s3; (void) s4; (void) s5; (void) s6; (void) pc2; (void) vc2; (void) vc3;
    (void) mc2; (void) mc3;
}

}

// Probes: declarations in a namespace whose qualified name contains "hep::" are part of the
// filtered AST dump, so the declaration ids of the standard-library entities referenced here are
// known to the analysis *in the same dump* and library references can be resolved by declaration
// identity instead of by spelling.
namespace verif_hep
{

using T = verif_driver::T;
using E = verif_driver::E;

#define VERIF_NL_PROBE(TYPE, TAG)                                                               \
    int const* const nl_##TAG##_digits = &std::numeric_limits<TYPE>::digits;                    \
    int const* const nl_##TAG##_digits10 = &std::numeric_limits<TYPE>::digits10;                \
    int const* const nl_##TAG##_max_digits10 = &std::numeric_limits<TYPE>::max_digits10;

VERIF_NL_PROBE(float, float)
VERIF_NL_PROBE(double, double)
VERIF_NL_PROBE(long double, long_double)

int const* const nl_T_digits = &std::numeric_limits<T>::digits;
int const* const nl_T_max_digits10 = &std::numeric_limits<T>::max_digits10;

T (* const gc_expected)(E&) = &std::generate_canonical<T, std::numeric_limits<T>::digits, E>;
T (* const gc_digits10)(E&) = &std::generate_canonical<T, std::numeric_limits<T>::digits10, E>;
T (* const gc_max_digits10)(E&) = &std::generate_canonical<T,
    std::numeric_limits<T>::max_digits10, E>;

}

namespace verif_hep
{
extern E engine_probe;
}
