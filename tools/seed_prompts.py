#!/usr/bin/env python3
"""tools/seed_prompts.py <round-dir> [hint-file.json]  - write one prompt per property for a fresh
sub-agent that plays the adversary.  The prompt contains the property text, the scratch worktree to
work in, and one line per change already delivered for that property (so that a new one is
different); nothing else from /verif."""
import sys, os, json
ROOT = os.path.dirname(os.path.dirname(os.path.abspath(__file__)))
out = sys.argv[1]
hints = json.load(open(sys.argv[2])) if len(sys.argv) > 2 else {}
os.makedirs(out, exist_ok=True)
props = [json.loads(l) for l in open(os.path.join(ROOT, 'properties.jsonl')) if l.strip()]
prev = {}
sd = os.path.join(ROOT, 'seeded')
for sid in sorted(os.listdir(sd)):
    mp = os.path.join(sd, sid, 'meta.json')
    if os.path.exists(mp):
        m = json.load(open(mp))
        prev.setdefault(m['breaks_property'], []).append((sid, m.get('needs_to_manifest', '')))
T = '''You are helping to evaluate a verification tool for the C++ library hep-mc (header-only C++11 template library for Monte Carlo integration: PLAIN, VEGAS, adaptive multi-channel, MPI variants, distributions, text checkpoints). Your job is to play the adversary: produce ONE realistic, subtle change to the library that BREAKS the semantic property given below, while the library still compiles and the existing test-suite still passes.

Work ONLY inside your own scratch git worktree of the library: @W@   (headers under include/hep/mc, tests under tests/, examples under examples/, docs under doc/).
Hard rules:
- Never read, list or write anything under /verif, and never modify /repo. Do not look for other people's notes; work from the property text and the library source only.
- Edit only files under @W@/include (the change to the library). Do not edit tests.
- Keep everything else you create (build directory, demo) under @W@ as well.

The property (this is all the specification you get):
@PROP@

Previous testers already delivered these changes for the same property (so do NOT repeat them, and do not touch the same statements):
@PREV@
Produce a DIFFERENT change. @HINT@

What to deliver (put the files into @W@/OUT/):
1. patch.diff  - `git -C @W@ diff -- include` of your change (a small, plausible edit, e.g. what a hurried maintainer or a refactoring could introduce; no comments announcing the bug).
2. demo.cpp (or a few files) - a small self-contained program (plain main(), returns 0 on success / non-zero or abort on failure; no Catch needed) that demonstrates the violation: it must FAIL with your change applied and PASS on the unchanged library. Include the exact compile/run command as a comment at the top (g++ -std=c++11 -I@W@/include ...). For MPI-related properties: mpicxx / mpirun exist in this sandbox (OpenMPI; use `mpirun --allow-run-as-root --oversubscribe -np N` if needed), or emulate ranks by calling the helper functions directly.
3. meta.txt - three short paragraphs: (a) what the change does and why it breaks the property, (b) what exactly is needed for the breakage to manifest, (c) the commands you ran and their results (tests pass with the change; demo fails with the change and passes without).

Requirements on the change:
- It must still compile and the EXISTING tests must all pass with it: build and run them in your own build directory:  `meson setup @W@/_build @W@ >/dev/null && meson test -C @W@/_build`  (19 tests; the first build takes a few minutes; later `meson test` rebuilds incrementally). Verify this after your change.
- It must need something SPECIFIC to manifest - a particular input or parameter combination, an unusual but legal value (zero, exactly 1, empty name, NaN, a count not divisible by the world size ...), a multi-step sequence of API calls (e.g. serialise, reload, roll back, resume), a crash at a particular point, a particular number of iterations/bins/channels, or two cooperating sites that each look fine alone. Changes that ordinary use or the existing tests would expose at once are not interesting.
- Prefer a change that looks innocent in review. Do not add new files to the library; do not rename public API.
- Verify your demo both ways. To run it against the unchanged library extract a pristine copy of the headers: `mkdir -p @W@/_orig && git -C @W@ archive HEAD include | tar -x -C @W@/_orig` and compile with -I@W@/_orig/include. Do NOT use `git stash` (the stash is shared between all worktrees of the repository and other people are working in sibling worktrees).

When you are done, reply with a short summary: which file(s)/function(s) you changed, the trigger condition, and confirmation of the three checks (tests pass with change; demo fails with change; demo passes without). Leave your change applied in the worktree and the files in @W@/OUT/.
'''
for p in props:
    pid = p['id']
    w = os.path.join(out, pid)
    pl = ''.join('- "%s" (%s)\n' % (n, s) for s, n in prev.get(pid, []))
    t = T.replace('@W@', w).replace('@PROP@', json.dumps(p, indent=1)).replace('@PREV@', pl or '(none)\n').replace('@HINT@', hints.get(pid, ''))
    open(os.path.join(out, pid + '.prompt.txt'), 'w').write(t)
print('wrote', len(props), 'prompts to', out)
