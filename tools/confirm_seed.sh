#!/bin/bash
# tools/confirm_seed.sh <worktree> <id> [mpi-np]   - confirm a seeded change independently:
#   tests pass with the change; demo fails with the change; demo passes on the original headers.
# Prints a JSON line with the three outcomes.
W=$1; ID=$2; NP=$3
set -u
cd "$W" || exit 2
git diff -- include > /tmp/confirm_$ID.diff
if ! diff -q /tmp/confirm_$ID.diff OUT/patch.diff >/dev/null; then echo "note: worktree diff differs from OUT/patch.diff (using worktree state)"; fi
T=$(meson test -C "$W/_build" 2>&1 | grep -E "^Ok:" | awk '{print $2}')
F=$(meson test -C "$W/_build" --no-rebuild 2>&1 | grep -E "^Fail:" | awk '{print $2}')
CXX="g++ -std=c++11 -O1"
RUN=""
if [ -n "${NP:-}" ]; then CXX="mpicxx -std=c++11 -O1"; RUN="mpirun --allow-run-as-root --oversubscribe -np $NP"; fi
rm -rf "$W/_orig"; mkdir -p "$W/_orig"; git archive HEAD include | tar -x -C "$W/_orig"
$CXX -I"$W/include" OUT/demo.cpp -o "$W/_demo_changed" 2>/tmp/confirm_$ID.c1 || { echo "compile (changed) failed"; cat /tmp/confirm_$ID.c1 | tail -5; }
$CXX -I"$W/_orig/include" OUT/demo.cpp -o "$W/_demo_orig" 2>/tmp/confirm_$ID.c2 || { echo "compile (orig) failed"; cat /tmp/confirm_$ID.c2 | tail -5; }
( cd "$W" && timeout 900 $RUN ./_demo_changed >/tmp/confirm_$ID.o1 2>&1 ); RC1=$?
( cd "$W" && timeout 900 $RUN ./_demo_orig >/tmp/confirm_$ID.o2 2>&1 ); RC2=$?
echo "{\"id\": \"$ID\", \"tests_ok\": \"$T\", \"tests_fail\": \"$F\", \"demo_with_change_rc\": $RC1, \"demo_without_change_rc\": $RC2}"
rm -f "$W/_demo_changed" "$W/_demo_orig"; rm -rf "$W/_orig"
