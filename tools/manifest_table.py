CHECKS = {
 'C16': {
  'text': 'Decides that discard_before / discard_after and the three sub_calls expressions ARE the canonical split formulas (expression normal forms over the reals with idiv/imod uninterpreted, trichotomy case split on the comparison atoms) and that the three MPI drivers bind (calls, rank, world) / (calls, sub_calls, rank, world) in that order; the tiling theorem is proved once on paper from the canonical forms (spec/formulas.py). Decides the formula identity for all totals/world sizes at once, not the arithmetic wrap-around.',
  'note': 'clang front end; sympy polynomial expansion; size_t products do not wrap; paper proof of the tiling theorem from the canonical forms',
  'technique': 'static def-use normal forms vs documented formulas (sympy identity), call-site argument binding'},
}
NOT_APPLICABLE = {}
