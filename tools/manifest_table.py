CHECKS = {
 'C16': {
  'text': 'Decides that discard_before / discard_after and the three sub_calls expressions ARE the canonical split formulas (expression normal forms over the reals with idiv/imod uninterpreted, trichotomy case split on the comparison atoms) and that the three MPI drivers bind (calls, rank, world) / (calls, sub_calls, rank, world) in that order; the tiling theorem is proved once on paper from the canonical forms (spec/formulas.py). Decides the formula identity for all totals/world sizes at once, not the arithmetic wrap-around.',
  'note': 'clang front end; sympy polynomial expansion; size_t products do not wrap; paper proof of the tiling theorem from the canonical forms',
  'technique': 'static def-use normal forms vs documented formulas (sympy identity), call-site argument binding'},
}
CHECKS['C13'] = {
  'text': 'Decides that weighted_with_variance, weighted_equally, chi_square_dof, create_result and the per-bin combination compute exactly the documented formulas: each function is summarised (loops as reductions) and value()/variance() of the returned result are compared with sum(E_i/S_i^2)/sum(1/S_i^2), 1/sum(1/S_i^2), the mean / standard error of the mean and sum((E_i-E)^2/S_i^2)/(n-1) by rational-function identity; every loop-carried value must be a commutative reduction over the current element only (order independence); the per-bin combination must apply the same Accumulator to bin (j,k) of every result for all (j,k). Bounds (between min and max, error <= S_i) follow on paper from the decided forms; numerical tolerances are not decided.',
  'note': 'clang front end; sympy; positive variances and calls >= 2 (premise); real arithmetic',
  'technique': 'static loop-to-reduction summaries + expression normal-form identity against documented formulas'}
CHECKS['C02'] = {
  'text': 'Decides the structural content of the estimator: per-call loops run 0..calls with one unconditional accumulator.invoke; invoke calls the integrand once, returns 0 / f*w / 0 and updates sum, sum of squares and the two counters exactly for the classes (zero, finite non-zero, non-finite); accumulate() adds v and v^2; value/variance/error are the documented formulas; result() binds every stored quantity to the parameter of the same role; VEGAS / multi-channel adjustment data are the documented per-bin and per-channel sums. All by def-use summaries and normal-form identity; nothing numerical is claimed.',
  'note': 'clang front end; sympy; user integrand opaque and pure; real arithmetic (Kahan compensation is zero over the reals)',
  'technique': 'static def-use summaries, effect sets per input class, argument-role binding, normal-form identity'}
CHECKS['C06'] = {
  'text': 'Abstract interpretation over the IEEE classes {NaN,-inf,Neg,Zero,Pos,+inf}: for all 36 class pairs of (integrand value, point weight) both accumulator::invoke specialisations are decided to accumulate nothing / count non-zero only / return 0 for non-finite products and to leave everything untouched for zero; the 1-d/2-d fills discard NaN and +-inf before any bin or counter; the VEGAS adjustment datum depends only on the sanitised value returned by invoke (zero adds zero); the multi-channel update writes nothing and requests no densities when the sanitised value is zero, whatever the weight. Later-iteration identity follows from these plus C07/C08; overflow of v*v for finite v is outside the premise.',
  'note': 'clang front end; IEEE classification + real arithmetic for finite operands; user callbacks opaque',
  'technique': 'static abstract interpretation (float-class domain) over def-use summaries with path conditions'}
NOT_APPLICABLE = {}
