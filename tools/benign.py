#!/usr/bin/env python3-vt
"""tools/benign.py [id ...] - behaviour-preserving edits must leave every check silent (exit 0)."""
import sys, os, json, shutil
sys.path.insert(0, os.path.dirname(os.path.dirname(os.path.abspath(__file__))))
from hepsa import controls
from concurrent.futures import ProcessPoolExecutor
B = json.load(open(os.path.join(os.path.dirname(os.path.dirname(os.path.abspath(__file__))), 'benign', 'benign.json')))
want = sys.argv[1:]
if want:
    B = [b for b in B if b['id'] in want]
PIDS = ['C%02d' % i for i in range(1, 21)]

def one(args):
    b, pid = args
    scratch = controls.make_scratch('/repo')
    try:
        if not controls.apply_mutant(scratch, b):
            return b['id'], pid, 'skipped', None
        try:
            ctx = controls.analyse(pid, scratch)
        except Exception as e:
            return b['id'], pid, 'FRONTEND', str(e)[:300]
        v = sorted(set('%s@%s' % (i.rule, i.site) for i in ctx.instances if i.verdict == 'VIOLATION'))
        k = sorted(set('%s@%s: %s' % (i.rule, i.site, i.detail[:200]) for i in ctx.instances if i.verdict == 'BROKEN'))
        if v:
            return b['id'], pid, 'FALSE-ALARM', v[:3]
        if k:
            return b['id'], pid, 'BROKEN', k[:2]
        return b['id'], pid, 'ok', None
    finally:
        shutil.rmtree(scratch, ignore_errors=True)

jobs = [(b, pid) for b in B for pid in PIDS]
bad = 0
with ProcessPoolExecutor(max_workers=15) as ex:
    for bid, pid, st, det in ex.map(one, jobs):
        if st not in ('ok',):
            bad += 1
            print(bid, pid, st, json.dumps(det)[:500])
print('%d jobs, %d not ok' % (len(jobs), bad))
