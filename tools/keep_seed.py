#!/usr/bin/env python3-vt
"""tools/keep_seed.py <worktree> <seed-id> <property> "<needs>"  - store a confirmed seeded change
under seeded/<seed-id>/ and record which checks report it.  The checks are run against /repo itself
with the patch applied (git apply) and /repo is restored straight afterwards (git checkout -- .)."""
import sys, os, json, shutil, subprocess, re
ROOT = os.path.dirname(os.path.dirname(os.path.abspath(__file__)))
w, sid, prop, needs = sys.argv[1:5]
confirm = json.loads(sys.argv[5]) if len(sys.argv) > 5 else {}
d = os.path.join(ROOT, 'seeded', sid)
os.makedirs(d, exist_ok=True)
for f in os.listdir(os.path.join(w, 'OUT')):
    p = os.path.join(w, 'OUT', f)
    if os.path.isfile(p) and os.path.getsize(p) < 400000 and not os.access(p, os.X_OK):
        shutil.copy(p, os.path.join(d, f))
patch = os.path.join(d, 'patch.diff')
assert subprocess.run(['git', '-C', '/repo', 'status', '--porcelain', '--untracked-files=no'], stdout=subprocess.PIPE).stdout.strip() == b'', '/repo not clean'
res = {}
r = subprocess.run(['git', '-C', '/repo', 'apply', patch], stdout=subprocess.PIPE, stderr=subprocess.STDOUT)
if r.returncode != 0:
    print('git apply failed', r.stdout.decode()); sys.exit(2)
try:
    from concurrent.futures import ThreadPoolExecutor
    def run(pid):
        q = subprocess.run([os.path.join(ROOT, 'check'), pid, '--tier', 'quick'], cwd=ROOT, stdout=subprocess.PIPE, stderr=subprocess.STDOUT)
        out = q.stdout.decode()
        rules = sorted(set(re.findall(r'^(\S+?):(\S+?): ', out, flags=re.M)))
        viol = [l for l in out.splitlines() if l.startswith('VIOLATION')]
        first = [l for l in out.splitlines() if ':' in l and not l.startswith(('VIOLATION', ' ', 'C', 'KNOWN', 'warning', 'ANALYSIS'))][:3]
        return pid, q.returncode, len(viol), first
    with ThreadPoolExecutor(max_workers=8) as ex:
        for pid, rc, nv, first in ex.map(run, ['C%02d' % i for i in range(1, 21)]):
            if rc != 0:
                res[pid] = {'exit': rc, 'violations': nv, 'reports': [x[:300] for x in first]}
finally:
    subprocess.run(['git', '-C', '/repo', 'checkout', 'HEAD', '--', '.'])
    # evidence files were rewritten by runs on the patched tree: regenerate on the clean tree
    if not os.environ.get('KEEP_NO_REGEN'):
        for pid in ['C%02d' % i for i in range(1, 21)]:
            subprocess.run([os.path.join(ROOT, 'check'), pid, '--tier', 'quick'], cwd=ROOT, stdout=subprocess.DEVNULL)
meta = {'seed': sid, 'breaks_property': prop, 'needs_to_manifest': needs,
        'author': 'independent sub-agent that saw only the property text and a scratch worktree of /repo',
        'confirmed_by_me': confirm,
        'how_confirmed': 'tools/confirm_seed.sh <worktree> <id>: meson test in the worktree with the change (19/19), '
                         'demo compiled against the changed headers fails, against `git archive HEAD include` passes',
        'checks_run': 'git -C /repo apply patch.diff; ./check C01..C20 --tier quick; git -C /repo checkout -- .',
        'reported_by': res,
        'caught_by_property_check': prop in res and res[prop]['exit'] == 1}
json.dump(meta, open(os.path.join(d, 'meta.json'), 'w'), indent=1)
print(sid, 'kept; reported by:', {k: v['exit'] for k, v in res.items()})
