#!/usr/bin/env python3-vt
"""tools/seed_eval.py <patch.diff> [pid ...]  - apply a seeded change to a scratch copy of /repo's
headers and run the quick rules of all (or the given) properties on it; prints which checks fire."""
import sys, os, subprocess, shutil, json
sys.path.insert(0, os.path.dirname(os.path.dirname(os.path.abspath(__file__))))
from hepsa import controls
from concurrent.futures import ProcessPoolExecutor

def run(pid, scratch):
    try:
        ctx = controls.analyse(pid, scratch)
    except Exception as e:
        return pid, 'ERROR', str(e)[:300]
    viol = sorted(set('%s@%s' % (i.rule, i.site) for i in ctx.instances if i.verdict == 'VIOLATION'))
    brk = sorted(set('%s@%s: %s' % (i.rule, i.site, i.detail[:160]) for i in ctx.instances if i.verdict == 'BROKEN'))
    if viol:
        return pid, 'VIOLATION', viol[:6]
    if brk:
        return pid, 'BROKEN', brk[:3]
    return pid, 'ok', None

def main():
    patch = sys.argv[1]
    pids = sys.argv[2:] or ['C%02d' % i for i in range(1, 21)]
    scratch = controls.make_scratch('/repo')
    try:
        r = subprocess.run(['patch', '-p1', '-d', scratch, '-i', os.path.abspath(patch)], stdout=subprocess.PIPE, stderr=subprocess.STDOUT)
        if r.returncode != 0:
            print('patch failed:', r.stdout.decode()[-500:])
            return 2
        with ProcessPoolExecutor(max_workers=10) as ex:
            for pid, st, det in ex.map(run, pids, [scratch] * len(pids)):
                if st != 'ok':
                    print(pid, st, json.dumps(det)[:700])
                else:
                    print(pid, 'ok')
    finally:
        shutil.rmtree(scratch, ignore_errors=True)

if __name__ == '__main__':
    sys.exit(main())
