#!/usr/bin/env python3-vt
"""Regenerates seeded/README.md from the meta.json files."""
import os, json
ROOT = os.path.dirname(os.path.dirname(os.path.abspath(__file__)))
d = os.path.join(ROOT, 'seeded')
rows = []
for sid in sorted(os.listdir(d)):
    mp = os.path.join(d, sid, 'meta.json')
    if not os.path.exists(mp):
        continue
    m = json.load(open(mp))
    rep = m.get('reported_by', {})
    v = sorted(k for k, x in rep.items() if x.get('exit') == 1)
    b = sorted(k for k, x in rep.items() if x.get('exit') == 2)
    rows.append((sid, m.get('breaks_property'), m.get('needs_to_manifest', ''), v, b, m.get('history', '')))
L = ['# Seeded changes', '',
     'Each directory holds one change to cschwan/hep-mc written by an independent sub-agent that saw only the',
     'text of one property and a scratch worktree of /repo (nothing from /verif): `patch.diff`, the demonstration',
     '(`demo.cpp`, fails with the change, passes without), the author\'s `meta.txt` and `meta.json` (what it needs',
     'to manifest, how it was confirmed, which checks report it).  Every change was confirmed independently',
     '(`tools/confirm_seed.sh`): the 19 tests pass with it, the demo fails with it and passes on the original',
     'headers.  None of them is ever committed in /repo; the thorough tier re-applies each to a scratch copy as a',
     'regression control of the checks recorded below.', '',
     '| seeded change | breaks | needs to manifest | reported as VIOLATION by | analysis-broken (exit 2) in | history |',
     '|---|---|---|---|---|---|']
for sid, prop, needs, v, b, h in rows:
    L.append('| %s | %s | %s | %s | %s | %s |' % (sid, prop, needs.replace('|', '/'), ', '.join(v), ', '.join(b), h))
open(os.path.join(d, 'README.md'), 'w').write('\n'.join(L) + '\n')
print(len(rows), 'seeded changes')
