#!/usr/bin/env python3-vt
"""tools/benign_patch.py <patch.diff> ...  - behaviour-preserving patches must leave every check
silent.  Each patch is applied to a scratch copy of /repo's headers (removed afterwards); the tree is
parsed once per instantiation and all twenty rule sets run on it."""
import sys, os, json, shutil, subprocess
sys.path.insert(0, os.path.dirname(os.path.dirname(os.path.abspath(__file__))))
from hepsa import controls, frontend
from hepsa.main import INSTANTIATIONS_QUICK
from concurrent.futures import ProcessPoolExecutor
PIDS = ['C%02d' % i for i in range(1, 21)]


def run(args):
    pid, scratch = args
    try:
        ctx = controls.analyse(pid, scratch, use_cache=True)
    except Exception as e:
        return pid, 'FRONTEND', str(e)[:300]
    v = sorted(set('%s@%s: %s' % (i.rule, i.site, i.detail[:160]) for i in ctx.instances if i.verdict == 'VIOLATION'))
    k = sorted(set('%s@%s: %s' % (i.rule, i.site, i.detail[:200]) for i in ctx.instances if i.verdict == 'BROKEN'))
    if v:
        return pid, 'FALSE-ALARM', v[:3]
    if k:
        return pid, 'BROKEN', k[:2]
    return pid, 'ok', None


def main():
    bad = 0
    n = 0
    for patch in sys.argv[1:]:
        scratch = controls.make_scratch('/repo')
        try:
            r = subprocess.run(['patch', '-p1', '-s', '-f', '-d', scratch, '-i', os.path.abspath(patch)],
                               stdout=subprocess.PIPE, stderr=subprocess.STDOUT)
            if r.returncode != 0:
                print(patch, 'PATCH-FAILED', r.stdout.decode()[-200:])
                continue
            for numeric, engine in [('double', 'std::mt19937')] + list(INSTANTIATIONS_QUICK):
                try:
                    frontend.load(scratch, numeric=numeric, engine=engine)
                except Exception as e:
                    print(patch, 'FRONTEND', str(e)[:300])
            with ProcessPoolExecutor(max_workers=15) as ex:
                for pid, st, det in ex.map(run, [(p, scratch) for p in PIDS]):
                    n += 1
                    if st != 'ok':
                        bad += 1
                        print(os.path.basename(os.path.dirname(os.path.dirname(patch))) + '/' + os.path.basename(patch), pid, st, json.dumps(det)[:600])
        finally:
            shutil.rmtree(scratch, ignore_errors=True)
            # drop the cache entries of the scratch tree
    print('%d jobs, %d not ok' % (n, bad))

if __name__ == '__main__':
    main()
