#!/usr/bin/env python3-vt
"""tools/probe.py <probes.json> [probe-id ...]  - dev tool: each probe is a list of find/replace edits
(a hand-written candidate breaking change).  It is applied to a scratch copy of /repo's headers, all
twenty rule sets run on it and the probe prints which checks report what.  Probes that are silent
everywhere show a blind spot (or a behaviour-preserving edit)."""
import sys, os, json, shutil
sys.path.insert(0, os.path.dirname(os.path.dirname(os.path.abspath(__file__))))
from hepsa import controls, frontend
from hepsa.main import INSTANTIATIONS_QUICK
from concurrent.futures import ProcessPoolExecutor
PIDS = ['C%02d' % i for i in range(1, 21)]


def run(args):
    pid, scratch = args
    try:
        ctx = controls.analyse(pid, scratch, use_cache=True)
    except Exception as e:
        return pid, 'FRONTEND', str(e)[:200]
    v = sorted(set('%s@%s' % (i.rule, i.site.split(':')[-1]) for i in ctx.instances if i.verdict == 'VIOLATION'))
    k = sorted(set('%s@%s' % (i.rule, i.site.split(':')[-1]) for i in ctx.instances if i.verdict == 'BROKEN'))
    if v:
        return pid, 'V', v[:2]
    if k:
        return pid, 'B', k[:2]
    return pid, 'ok', None


def main():
    probes = json.load(open(sys.argv[1]))
    want = sys.argv[2:]
    for pr in probes:
        if want and pr['id'] not in want:
            continue
        scratch = controls.make_scratch('/repo')
        try:
            ok = True
            for e in pr['edits']:
                fp = os.path.join(scratch, e['file'])
                s = open(fp).read()
                if s.count(e['find']) != 1:
                    print(pr['id'], 'EDIT-NOT-UNIQUE', s.count(e['find']), e['find'][:60])
                    ok = False
                    break
                open(fp, 'w').write(s.replace(e['find'], e['replace']))
            if not ok:
                continue
            for numeric, engine in [('double', 'std::mt19937')] + list(INSTANTIATIONS_QUICK):
                try:
                    frontend.load(scratch, numeric=numeric, engine=engine)
                except Exception as e:
                    print(pr['id'], 'FRONTEND', str(e)[:300])
            res = {}
            with ProcessPoolExecutor(max_workers=15) as ex:
                for pid, st, det in ex.map(run, [(p, scratch) for p in PIDS]):
                    if st != 'ok':
                        res[pid] = (st, det)
            exp = pr.get('expect', '')
            tag = 'SILENT' if not res else ('own' if exp in res and res[exp][0] == 'V' else 'other')
            print(pr['id'], '[%s]' % exp, tag, json.dumps({k: v for k, v in res.items()})[:500], flush=True)
        finally:
            shutil.rmtree(scratch, ignore_errors=True)

if __name__ == '__main__':
    main()
