#!/usr/bin/env python3
"""tools/benign_prompts.py <round-dir>  - write the prompts for five fresh sub-agents that produce
behaviour-preserving refactorings (regression inputs: every check must stay silent on them).  Each prompt
names a scratch worktree and a group of headers; nothing from /verif."""
import sys, os
out = sys.argv[1]
os.makedirs(out, exist_ok=True)
AREAS = {
    'B1': 'vegas_pdf.hpp, vegas.hpp, vegas_chkpt.hpp, vegas_result.hpp, vegas_point.hpp',
    'B2': 'multi_channel.hpp, multi_channel_refine_weights.hpp, multi_channel_chkpt.hpp, multi_channel_summary.hpp, '
          'multi_channel_weight_info.hpp, multi_channel_point.hpp, multi_channel_result.hpp, discrete_distribution.hpp',
    'B3': 'accumulator.hpp, projector.hpp, distribution_parameters.hpp, distribution_result.hpp, mc_helper.hpp, '
          'mc_result.hpp, plain_result.hpp',
    'B4': 'chkpt.hpp, callback.hpp, plain.hpp, plain_chkpt.hpp, integrand.hpp, multi_channel_integrand.hpp, mc_point.hpp',
    'B5': 'mpi_helper.hpp, mpi_callback.hpp, mpi_plain.hpp, mpi_vegas.hpp, mpi_multi_channel.hpp, generator_helper.hpp',
}
T = '''You are helping to evaluate a static verification tool for the C++ library hep-mc (header-only C++11 template library for Monte Carlo integration: PLAIN, VEGAS, adaptive multi-channel, MPI variants, distributions, text checkpoints). Your job: produce SIX independent, strictly BEHAVIOUR-PRESERVING refactorings of the library, the kind of clean-up commits a maintainer makes. They are used as regression inputs: a verification tool must stay silent on them.

Work ONLY inside your own scratch git worktree of the library: @W@  (headers under include/hep/mc, tests under tests/).
Hard rules:
- Never read, list or write anything under /verif, and never modify /repo. Work from the library source only.
- Edit only files under @W@/include. Do not edit tests. Do not add files to the library, do not change the public API (names, parameter order and types of documented functions and classes stay).
- Keep everything you create (build directories, output) under @W@. Do NOT use `git stash` (shared between worktrees).

Your group of headers (under include/hep/mc): @AREA@

Each refactoring is a separate patch against the PRISTINE tree (not stacked), 30-90 changed lines, touching one to three functions of your group, and must keep the observable behaviour bit-for-bit: same results, same random numbers consumed in the same order, same text written, same floating-point operations in the same order and the same type, same exceptions, same behaviour for edge cases (empty inputs, zero, NaN). If you are not sure a rewrite is exactly equivalent (floating-point re-association, evaluation order, overflow, aliasing), do not do it.

Use a DIFFERENT style for each of the six patches; pick from (and feel free to combine):
- hoist a scratch container out of a loop and `clear()` it at the top of every pass (or the reverse);
- replace a hand-written loop by a standard algorithm (std::copy, std::fill, std::transform, std::accumulate with an initial value of the right type `T()`, std::generate, std::for_each with a lambda) or an algorithm by a loop; iterator loops <-> index loops <-> range-for; while <-> for; loops with a continue-flag or `while (true)` + break;
- extract a private/internal helper function or lambda (with its own parameters, possibly in another order), or inline one;
- named temporaries with explicit types, `static constexpr` / `static const` named constants for literals (constants only), explicit `static_cast<T>(...)` where a conversion already happens implicitly to the same type;
- `virtual`/`override`/`final` tidy-ups that do not change which function is called; constructor initialiser list <-> default member initialisers <-> assignments in the body (every member still initialised);
- pass-by-const-reference <-> pass-by-value-and-move for parameters that are copied anyway (never for polymorphic checkpoint arguments where it would slice);
- restructure conditions: early returns / guard clauses, De Morgan, ternary <-> if, switch <-> if chains, `x > 0` vs `x != 0` ONLY where the operand is an unsigned integer;
- rename private members / locals / parameters of internal functions; reorder private members together with the constructor initialisers (keeping initialisation dependencies valid).

For every patch: apply it alone to the pristine tree, then build and run the tests in BOTH configurations and make sure all pass:
  meson setup @W@/_build @W@ >/dev/null && meson test -C @W@/_build            (19 tests)
  meson setup @W@/_buildmpi @W@ -Dmpi=true >/dev/null && meson test -C @W@/_buildmpi   (26 tests; if `mpiexec` refuses to run as root, run the *_mpi test executables by hand with `mpirun --allow-run-as-root --oversubscribe -np 2 <exe>`)
(the first build takes a few minutes; later `meson test` rebuilds incrementally). Then save the patch as @W@/OUT/b01.diff ... b06.diff (`git -C @W@ diff -- include > ...`) and restore the pristine tree (`git -C @W@ checkout -- include`) before the next one.

Also write @W@/OUT/README.txt with one paragraph per patch: functions touched, the kind of refactoring, and the argument why behaviour is unchanged (mention any place where the argument relies on non-aliasing, unsignedness, or non-negative values).

When done, reply with a short summary (one line per patch). Leave the worktree at the pristine HEAD with only OUT/ and the build directories untracked.
'''
for k, a in AREAS.items():
    w = os.path.join(out, k)
    open(os.path.join(out, k + '.prompt.txt'), 'w').write(T.replace('@W@', w).replace('@AREA@', a))
print('wrote', len(AREAS), 'prompts to', out)
