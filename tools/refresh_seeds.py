#!/usr/bin/env python3-vt
"""tools/refresh_seeds.py [seed-id ...] - re-run all checks against /repo with each kept seeded patch
applied (git apply ... git checkout -- .) and update `reported_by` in its meta.json."""
import sys, os, json, subprocess, re
ROOT = os.path.dirname(os.path.dirname(os.path.abspath(__file__)))
d = os.path.join(ROOT, 'seeded')
want = sys.argv[1:]
from concurrent.futures import ThreadPoolExecutor
PIDS = ['C%02d' % i for i in range(1, 21)]

def run(pid):
    q = subprocess.run([os.path.join(ROOT, 'check'), pid, '--tier', 'quick'], cwd=ROOT, stdout=subprocess.PIPE, stderr=subprocess.STDOUT)
    out = q.stdout.decode()
    viol = [l for l in out.splitlines() if l.startswith('VIOLATION')]
    first = [l for l in out.splitlines() if ':' in l and not l.startswith(('VIOLATION', ' ', 'C', 'KNOWN', 'warning', 'ANALYSIS'))][:3]
    return pid, q.returncode, len(viol), first

for sid in sorted(os.listdir(d)):
    if want and sid not in want:
        continue
    mp = os.path.join(d, sid, 'meta.json')
    pp = os.path.join(d, sid, 'patch.diff')
    if not os.path.exists(mp):
        continue
    assert subprocess.run(['git', '-C', '/repo', 'status', '--porcelain', '--untracked-files=no'], stdout=subprocess.PIPE).stdout.strip() == b'', '/repo not clean'
    r = subprocess.run(['git', '-C', '/repo', 'apply', pp], stdout=subprocess.PIPE, stderr=subprocess.STDOUT)
    if r.returncode != 0:
        r = subprocess.run(['patch', '-p1', '-s', '-d', '/repo', '-i', pp], stdout=subprocess.PIPE, stderr=subprocess.STDOUT)
    res = {}
    try:
        if r.returncode != 0:
            print(sid, 'patch does not apply:', r.stdout.decode()[-200:])
            continue
        with ThreadPoolExecutor(max_workers=8) as ex:
            for pid, rc, nv, first in ex.map(run, PIDS):
                if rc != 0:
                    res[pid] = {'exit': rc, 'violations': nv, 'reports': [x[:300] for x in first]}
    finally:
        subprocess.run(['git', '-C', '/repo', 'checkout', 'HEAD', '--', '.'])
    m = json.load(open(mp))
    m['reported_by'] = res
    m['caught_by_property_check'] = m['breaks_property'] in res and res[m['breaks_property']]['exit'] == 1
    json.dump(m, open(mp, 'w'), indent=1)
    print(sid, {k: v['exit'] for k, v in res.items()}, 'CAUGHT' if m['caught_by_property_check'] else 'NOT CAUGHT BY ' + m['breaks_property'])
for pid in PIDS:
    subprocess.run([os.path.join(ROOT, 'check'), pid, '--tier', 'quick'], cwd=ROOT, stdout=subprocess.DEVNULL)
