#!/usr/bin/env python3-vt
"""dev tool: tools/mut.py <pid> [mutant-id ...]  - run the negative controls of a property"""
import sys, os, json
sys.path.insert(0, os.path.dirname(os.path.dirname(os.path.abspath(__file__))))
from hepsa import controls
pid = sys.argv[1]
want = sys.argv[2:]
ms = controls.load_mutants(pid)
if want:
    ms = [m for m in ms if m['id'] in want]
from concurrent.futures import ProcessPoolExecutor
with ProcessPoolExecutor(max_workers=14) as ex:
    for r in ex.map(controls.run_one, [pid]*len(ms), ['/repo']*len(ms), ms):
        print(json.dumps(r))
