#!/usr/bin/env python3-vt
"""Regenerates MANIFEST.json from the table below (keeps it schema-valid at all times)."""
import json, os, sys
ROOT = os.path.dirname(os.path.dirname(os.path.abspath(__file__)))
sys.path.insert(0, ROOT)
from tools.manifest_table import CHECKS, NOT_APPLICABLE

props = [json.loads(l) for l in open(os.path.join(ROOT, 'properties.jsonl'))]
ids = [p['id'] for p in props]
checks = []
for pid in ids:
    if pid in CHECKS:
        c = CHECKS[pid]
        checks.append({
            'property_id': pid,
            'quick_cmd': './check %s --tier quick' % pid,
            'thorough_cmd': './check %s --tier thorough' % pid,
            'evidence_file': 'evidence/%s.json' % pid,
            'replay_cmd_template': './check %s --replay {path}' % pid,
            'engine': 'hepsa',
            'level_claimed': {'category': 'other', 'text': c['text'], 'design_ref': 'DESIGN.md section 4, ' + pid},
            'level_note': c['note'],
            'technique': c['technique'],
        })
na = [{'property_id': pid, 'reason': NOT_APPLICABLE.get(pid, 'no sound static rule built for this property yet; not claimed')}
      for pid in ids if pid not in CHECKS]
m = {
    'version': 1,
    'setup_cmd': 'mkdir -p .cache evidence out && python3-vt -c "import sympy" && clang++ --version >/dev/null',
    'hooks': {'guard': 'HEP_MC_VERIF', 'enable': 'none needed: every rule reads the unmodified headers through clang -fsyntax-only',
              'baseline_off_cmd': 'meson test -C /repo/_build', 'source_commits': [], 'add_only': True},
    'engines': [{'name': 'hepsa', 'path': 'hepsa/', 'serves_properties': sorted(CHECKS),
                 'kind_free_text': 'custom static analyser over clang\'s type-checked JSON AST: def-use normal forms compared with documented formulas (sympy canonical expansion), finite abstract domains (IEEE float classes), structural/dominance/call-order rules, reader/writer grammar agreement, typestate of the checkpoint API'}],
    'checks': checks,
    'not_applicable': na,
    'notes': 'Static analysis only: no check compiles hep-mc into an executable or runs it. Exit 0 holds / 1 violation / 2 analysis broken. Known findings: KNOWN_FINDINGS.txt.',
}
json.dump(m, open(os.path.join(ROOT, 'MANIFEST.json'), 'w'), indent=1)
print('checks:', len(checks), 'not_applicable:', len(na))
