#!/bin/bash
# tools/seed_round.sh <round-dir> [ids...]  - for every delivered seeded change in <round-dir>/<Cxx>/OUT:
# run all twenty checks on a scratch copy with the patch (tools/seed_eval.py) and confirm the change
# independently (tools/confirm_seed.sh: tests pass, demo fails with / passes without the change).
R=$1; shift
IDS=${@:-$(cd $R && ls -d C?? 2>/dev/null)}
cd "$(dirname "$0")/.."
for c in $IDS; do
  [ -f $R/$c/OUT/patch.diff ] || { echo "== $c: no patch.diff"; continue; }
  NP=""
  grep -q "mpi.h\|MPI_Init" $R/$c/OUT/demo.cpp 2>/dev/null && NP=2
  ( bash tools/confirm_seed.sh $R/$c $c $NP 2>&1 | tail -2 > $R/$c.confirm ) &
done
for c in $IDS; do
  [ -f $R/$c/OUT/patch.diff ] || continue
  echo "== $c"
  python3-vt tools/seed_eval.py $R/$c/OUT/patch.diff 2>&1 | grep -v " ok$" | cut -c1-600
done
wait
for c in $IDS; do [ -f $R/$c.confirm ] && cat $R/$c.confirm; done
